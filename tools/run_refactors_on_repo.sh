#!/bin/bash
# For every property-preserving rewrite under /verif/refactors/: apply it to /repo's working tree, run ALL registered
# quick checks exactly as in MANIFEST.json, undo it straight afterwards. Any VIOLATION here is a false alarm.
# Output: tools/refactors_on_repo.tsv  (id, property, exit code, violation class if any)
cd /verif
# never leave /repo patched, and never leave evidence written against a patched tree behind
trap 'git -C /repo checkout -- . ; git -C /verif checkout -- evidence 2>/dev/null' EXIT
out=tools/refactors_on_repo.tsv
: > $out
git -C /repo diff --quiet || { echo "/repo working tree is not clean"; exit 2; }
for d in refactors/*/; do
  id=$(basename $d)
  git -C /repo apply --whitespace=nowarn /verif/$d/patch.diff || { echo -e "$id\t-\tPATCH-FAILED" >> $out; continue; }
  for prop in C01 C02 C03 C04 C06 C07 C08 C09 C10 C12 C13 C14 C15 C16 C20; do
    log=$(./check $prop quick 2>&1); rc=$?
    cls=$(echo "$log" | grep -m1 'class:' | sed 's/.*class: //')
    echo -e "$id\t$prop\t$rc\t$cls" | tee -a $out
  done
  git -C /repo checkout -- .
done
git -C /repo status --short | head -3
