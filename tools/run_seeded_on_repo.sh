#!/bin/bash
# For every confirmed change under /verif/seeded/: apply it to /repo's working tree, run the quick check of the
# property it was aimed at exactly as registered in MANIFEST.json, undo it straight afterwards.
# Output: tools/seeded_on_repo.tsv  (id, property, exit code, first violation class, replay confirmed?)
cd /verif
# never leave /repo patched, and never leave evidence written against a patched tree behind
trap 'git -C /repo checkout -- . ; git -C /verif checkout -- evidence 2>/dev/null' EXIT
out=tools/seeded_on_repo.tsv
filter="${1:-}"   # optional substring: only ids containing it are (re)run, other rows are kept
if [ -n "$filter" ]; then grep -v -- "$filter" $out > $out.tmp; mv $out.tmp $out; else : > $out; fi
git -C /repo diff --quiet || { echo "/repo working tree is not clean"; exit 2; }
for d in seeded/*/; do
  id=$(basename $d)
  [ -n "$filter" ] && [[ "$id" != *"$filter"* ]] && continue
  prop=${id%%-*}
  git -C /repo apply --whitespace=nowarn /verif/$d/patch.diff || { echo -e "$id\t$prop\tPATCH-FAILED" >> $out; continue; }
  log=$(./check $prop quick 2>&1); rc=$?
  git -C /repo checkout -- .
  cls=$(echo "$log" | grep -m1 'class:' | sed 's/.*class: //')
  conf=$(echo "$log" | grep -c 'replay confirmed in a fresh process')
  echo -e "$id\t$prop\t$rc\t$cls\t$conf" | tee -a $out
done
git -C /repo status --short | head -3
