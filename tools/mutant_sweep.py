#!/usr/bin/env python3
"""Sensitivity sweep: apply a mutant (hand-made or a patch file) to a scratch copy of /repo,
build the simulator against that copy and run every claimed property's check on it.
Nothing here touches /repo; scratch copies live under /tmp/ms-* and are removed afterwards.

  tools/mutant_sweep.py hand [--baseline] [--runs N] [--jobs J] [ids...]
  tools/mutant_sweep.py patch NAME PATCH [--baseline] [--runs N]
Results are appended to tools/sweep_results.jsonl (one JSON object per mutant)."""
import json
import os
import shutil
import subprocess
import sys
import time
from concurrent.futures import ThreadPoolExecutor

sys.path.insert(0, os.path.dirname(__file__))
from mutants import MUTANTS

PROPS = os.environ["VERIF_PROPS"].split() if os.environ.get("VERIF_PROPS") else ["C01", "C02", "C03", "C04", "C06", "C07", "C08", "C09", "C10", "C12", "C13", "C14", "C15", "C16", "C20"]
VERIF = "/verif"
# sources of the simulator: the working tree, or a snapshot of an earlier commit (to measure what an earlier
# version of the checks would have caught)
SRC = os.environ.get("VERIF_SNAPSHOT", VERIF)
ENV = dict(os.environ, RUST_BACKTRACE="0", CARGO_NET_OFFLINE="true")


def sh(cmd, cwd=None, timeout=3600):
    return subprocess.run(cmd, shell=True, cwd=cwd, env=ENV, stdout=subprocess.PIPE, stderr=subprocess.STDOUT, text=True, timeout=timeout)


def prepare(tag):
    root = f"/tmp/ms-{tag}"
    shutil.rmtree(root, ignore_errors=True)
    os.makedirs(root)
    # the committed tree, not the working tree: immune to a patch that is temporarily applied to /repo
    os.makedirs(f"{root}/repo")
    sh(f"git -C /repo archive HEAD | tar -x -C {root}/repo")
    os.makedirs(f"{root}/sim/.cargo")
    shutil.copytree(f"{SRC}/sim/src", f"{root}/sim/src")
    os.symlink(f"{SRC}/roots", f"{root}/roots")
    toml = open(f"{SRC}/sim/Cargo.toml").read().replace('/repo/cozy-chess', f'{root}/repo/cozy-chess')
    open(f"{root}/sim/Cargo.toml", "w").write(toml)
    shutil.copy(f"{SRC}/sim/Cargo.lock", f"{root}/sim/Cargo.lock")
    shutil.copy(f"{SRC}/sim/.cargo/config.toml", f"{root}/sim/.cargo/config.toml")
    return root


PEXT = "--pext" in sys.argv


def evaluate(tag, apply, runs, baseline, threads):
    t0 = time.time()
    root = prepare(tag)
    res = {"id": tag}
    try:
        err = apply(f"{root}/repo")
        if err:
            res["error"] = err
            return res
        if PEXT:
            b = sh('RUSTFLAGS="-C target-feature=+bmi2" cargo build --release --offline --features pext', cwd=f"{root}/sim")
            res["backend"] = "pext"
        else:
            b = sh("cargo build --release --offline", cwd=f"{root}/sim")
        if b.returncode != 0:
            res["error"] = "does not compile: " + b.stdout[-600:]
            return res
        caught = {}
        for p in PROPS:
            n = runs // 4 if p == "C04" else runs
            lat = 0 if p == "C04" else 116384
            r = sh(f"{root}/sim/target/release/cozy-sim run --prop {p} --runs {n} --seed 1 --threads {threads} --known {SRC}/known_findings.txt --replay-dir {root}/replays --lattice {lat}", cwd=root)
            if r.returncode == 1:
                cls = [l.split("class:")[1].strip() for l in r.stdout.splitlines() if l.strip().startswith("class:")]
                caught[p] = cls[0] if cls else "?"
            elif r.returncode != 0:
                caught[p] = "HARNESS-ERROR " + r.stdout[-300:]
        res["caught_by"] = caught
        if baseline:
            t = sh("cargo test --workspace --no-fail-fast --offline 2>&1 | grep -E '^test result|FAILED|panicked' | head -20", cwd=f"{root}/repo", timeout=3600)
            lines = t.stdout.strip().splitlines()
            failed = [l for l in lines if "FAILED" in l or ("test result" in l and " 0 failed" not in l)]
            res["baseline"] = "passes" if lines and not failed else "KILLED: " + " | ".join(failed[:4])
        res["wall_s"] = round(time.time() - t0, 1)
        return res
    finally:
        shutil.rmtree(root, ignore_errors=True)


def apply_hand(m):
    def f(repo):
        path = f"{repo}/{m[2]}"
        s = open(path).read()
        if s.count(m[3]) != 1:
            return f"anchor text occurs {s.count(m[3])} times in {m[2]}"
        open(path, "w").write(s.replace(m[3], m[4]))
        return None
    return f


def apply_patch(patch):
    def f(repo):
        r = sh(f"git init -q . && git apply --whitespace=nowarn {patch}", cwd=repo)
        return None if r.returncode == 0 else "patch does not apply: " + r.stdout[-300:]
    return f


def main():
    args = sys.argv[1:]
    baseline = "--baseline" in args
    runs = 8192
    jobs = 4
    if "--runs" in args:
        runs = int(args[args.index("--runs") + 1])
    if "--jobs" in args:
        jobs = int(args[args.index("--jobs") + 1])
    pos = [a for i, a in enumerate(args) if not a.startswith("--") and (i == 0 or args[i - 1] not in ("--runs", "--jobs"))]
    out = open(f"{VERIF}/tools/sweep_results.jsonl", "a")
    if pos and pos[0] == "patch":
        name, patch = pos[1], os.path.abspath(pos[2])
        r = evaluate(name, apply_patch(patch), runs, baseline, 16)
        r["kind"] = "patch"
        print(json.dumps(r))
        out.write(json.dumps(r) + "\n")
        return
    ids = pos[1:] if pos and pos[0] == "hand" else []
    todo = [m for m in MUTANTS if not ids or m[0] in ids]

    def one(m):
        r = evaluate(m[0], apply_hand(m), runs, baseline, max(2, 16 // jobs))
        r.update({"kind": "hand", "intended": m[1], "file": m[2], "what": m[5]})
        print(json.dumps(r), flush=True)
        return r

    with ThreadPoolExecutor(max_workers=jobs) as ex:
        for r in ex.map(one, todo):
            out.write(json.dumps(r) + "\n")
            out.flush()


if __name__ == "__main__":
    main()
