#!/usr/bin/env python3
"""Confirm an independently written property-breaking change before it is kept under /verif/seeded/<id>/:
  1. in a scratch git worktree of /repo (under /tmp, removed afterwards): the patch applies and compiles,
     the unedited repository test suite passes with it, the demonstration fails with it and passes without it;
  2. the checks are run against a scratch copy with the patch applied (tools/mutant_sweep.py patch ...).
Usage: tools/validate_seeded.py <id> <source dir with patch.diff demo.rs meta.json>
Writes /verif/seeded/<id>/{patch.diff,demo.rs,meta.json} only when step 1 holds."""
import json
import os
import shutil
import subprocess
import sys

ENV = dict(os.environ, RUST_BACKTRACE="0", CARGO_NET_OFFLINE="true")


def sh(cmd, cwd=None, timeout=3600):
    return subprocess.run(cmd, shell=True, cwd=cwd, env=ENV, stdout=subprocess.PIPE, stderr=subprocess.STDOUT, text=True, timeout=timeout)


def main():
    sid, src = sys.argv[1], os.path.abspath(sys.argv[2])
    wt = f"/tmp/sv-{sid}"
    sh(f"git -C /repo worktree remove --force {wt}")
    shutil.rmtree(wt, ignore_errors=True)
    r = sh(f"git -C /repo worktree add --detach {wt} HEAD")
    assert r.returncode == 0, r.stdout
    report = {}
    try:
        r = sh(f"git apply --whitespace=nowarn {src}/patch.diff", cwd=wt)
        if r.returncode != 0:
            print("PATCH DOES NOT APPLY", r.stdout)
            return 1
        t = sh("cargo test --workspace --no-fail-fast --offline 2>&1 | grep -E '^test result|FAILED|panicked|^error' | head -30", cwd=wt)
        lines = t.stdout.strip().splitlines()
        results = [l for l in lines if l.startswith("test result")]
        bad = [l for l in lines if "FAILED" in l or l.startswith("error") or (l.startswith("test result") and " 0 failed" not in l)]
        report["baseline_confirmed"] = "passes" if results and not bad else "FAILS: " + " | ".join(bad[:4])
        shutil.copy(f"{src}/demo.rs", f"{wt}/cozy-chess/tests/demo.rs") if os.path.isdir(f"{wt}/cozy-chess/tests") else (os.makedirs(f"{wt}/cozy-chess/tests"), shutil.copy(f"{src}/demo.rs", f"{wt}/cozy-chess/tests/demo.rs"))
        meta_in = json.load(open(f"{src}/meta.json"))
        pext_only = bool(meta_in.get("pext_only"))
        demo_cmd = ('RUSTFLAGS="-C target-feature=+bmi2" cargo test --offline -p cozy-chess --features pext --test demo 2>&1 | tail -15'
                    if pext_only else "cargo test --offline -p cozy-chess --test demo 2>&1 | tail -15")
        d1 = sh(demo_cmd, cwd=wt)
        with_fail = "test result: FAILED" in d1.stdout or "panicked" in d1.stdout
        sh(f"git apply -R --whitespace=nowarn {src}/patch.diff", cwd=wt)
        d2 = sh(demo_cmd, cwd=wt)
        without_pass = "test result: ok" in d2.stdout
        report["demo_confirmed"] = f"fails with the change: {with_fail}; passes without it: {without_pass}"
        ok = report["baseline_confirmed"] == "passes" and with_fail and without_pass
        print(json.dumps(report))
        if not ok:
            print("NOT KEPT")
            return 1
    finally:
        sh(f"git -C /repo worktree remove --force {wt}")
        shutil.rmtree(wt, ignore_errors=True)
    dst = f"/verif/seeded/{sid}"
    os.makedirs(dst, exist_ok=True)
    shutil.copy(f"{src}/patch.diff", f"{dst}/patch.diff")
    shutil.copy(f"{src}/demo.rs", f"{dst}/demo.rs")
    meta = json.load(open(f"{src}/meta.json"))
    meta.update(report)
    meta["confirmed_by"] = "tools/validate_seeded.py: scratch worktree of /repo HEAD; `cargo test --workspace --no-fail-fast --offline` with the patch; demo as cozy-chess/tests/demo.rs with and without the patch"
    json.dump(meta, open(f"{dst}/meta.json", "w"), indent=1)
    # step 2: which checks catch it
    r = sh(f"python3 /verif/tools/mutant_sweep.py patch {sid} {dst}/patch.diff --runs 16384" + (" --pext" if meta.get("pext_only") else ""), timeout=7200)
    print(r.stdout[-1500:])
    try:
        res = json.loads(r.stdout.strip().splitlines()[-1])
        meta["checks_that_caught_it"] = res.get("caught_by", {})
        json.dump(meta, open(f"{dst}/meta.json", "w"), indent=1)
    except Exception as e:  # noqa
        print("could not parse sweep result", e)
    return 0


if __name__ == "__main__":
    sys.exit(main())
