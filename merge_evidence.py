#!/usr/bin/env python3
"""Merge the per-configuration partial results written by cozy-sim into /verif/evidence/<id>.json.
Every number comes from the partial files of this run; nothing is a constant."""
import json
import sys

LEVEL = {
    "C01": "exploration", "C02": "exploration", "C03": "exploration", "C04": "exploration",
    "C06": "fault_enumeration", "C07": "exploration", "C08": "fault_enumeration",
    "C09": "fault_enumeration", "C10": "exploration", "C12": "exploration", "C13": "exploration",
    "C14": "exploration", "C15": "exploration", "C16": "exploration", "C20": "exploration",
}

ORACLE = {
    "C01": "generate_moves as a duplicate-free set == the reference model's legal moves, no panic, at every state",
    "C02": "after every played move: play/try_play/play_unchecked agree and accessors + text == model.make(move)",
    "C03": "at every state: checkers/pinned == definition (model) and live board == board freshly recovered from the model's record (text and builder); reconverging forks compare equal",
    "C04": "at every state the whole 64*64*7 move space: is_legal(m) == (m in generate_moves), no panic",
    "C06": "every board handed out (start, play, null, restart, accepted corrupted records/builder states) satisfies each structural condition; positions reached by legal play re-enter through all five routes",
    "C07": "at every state: {:#} text == model's canonical record, parse-back == live board, parse-format identity; same for plain FEN when expressible; equality of boards <=> equality of texts",
    "C08": "full text corruption catalogue on the record of the current state through from_fen(false/true) and FromStr: no panic; accept => 6 fields, 8x8 placement, right denotation; single-field damage => that field's error variant; truncation => MissingField; extra => TooManyFields",
    "C09": "from_board(b).build() == b at every state; builder catalogue + synthesised damaged states: build ok <=> Shredder record parses (equal boards), inexpressible states rejected, single-aspect damage => that aspect's error",
    "C10": "hash == hash of boards recovered from the model's record by text and builder, under clock edits, hash_without_ep == hash of the EP-less record, equal hashes for reconverging forks and for positions revisited within a run",
    "C12": "status() == model (mate/stalemate/fifty-move with mate precedence), also with the clock forced to 99 and 100",
    "C13": "same_position on fault-made pairs (clock edits, EP cleared/added/moved, right removed, piece changed, side flipped, transpositions) == model's FIDE identity; reflexive, symmetric, transitive on triples",
    "C14": "at every state null_move() is None <=> model in check; else fields == model.null() and board == fresh board of that record (hash, checkers, pins)",
    "C15": "try_play Ok <=> model-legal, Ok == play_unchecked, Err leaves board/accessors/texts/hash identical; play panics <=> illegal and leaves the board intact; one full 64*64*7 sweep per run",
    "C16": "masked generation == {legal moves with origin in mask} for fixed and random masks; batches non-empty, <= 18; abort at every call index k => exactly k+1 calls and true; false otherwise",
    "C20": "for every legal move: SAN == model's canonical SAN and reads back; UCI pair on orthodox boards; damaged / foreign SAN strings => Err or the unique legal move matching all written components; no panic",
}

ASSUMPTIONS = [
    "the reference model (sim/src/model.rs) is correct: validated by its own perft against published counts (./check selftest) and by differential agreement with the library on the unchanged tree",
    "sampled, not exhaustive: a clean batch is evidence, not proof",
    "boot states from the synthesiser are plain seeded generation filtered by the model's soundness predicate",
    "grey zones listed in DESIGN.md 4.6 are never asserted",
]


def main():
    prop, tier, seed, wall, out = sys.argv[1:6]
    parts = [json.load(open(p)) for p in sys.argv[6:]]
    runs = sum(p["runs"] for p in parts)
    steps = sum(p["steps"] for p in parts)
    evals = sum(p["oracle_evaluations"] for p in parts)
    magic = [p for p in parts if p["backend"] == "magic" and p["profile"] == "release"]
    distinct = max((p["distinct_states"] for p in magic), default=max(p["distinct_states"] for p in parts))
    counters = {}
    for p in parts:
        for k, v in p["counters"].items():
            counters[k] = counters.get(k, 0) + v
    faults = {k: v for k, v in counters.items() if k[0] == "F" and k[1].isdigit()}
    probes = {k: v for k, v in counters.items() if k.startswith("probe_")}
    ops = {k: v for k, v in counters.items() if k.startswith("op_")}
    other = {k: v for k, v in counters.items() if k not in faults and k not in probes and k not in ops}
    known = {}
    for p in parts:
        for k, v in p["known_findings_matched"].items():
            known[k] = known.get(k, 0) + v
    violations = sum(p["violations"] for p in parts)
    wall_f = float(wall)
    samples = []
    for p in parts[:1]:
        samples.extend(p["samples"])
    ev = {
        "property_id": prop,
        "tier": tier,
        "seed": int(seed),
        "level": LEVEL[prop],
        "coverage": {
            "evaluations": evals,
            "distinct_nontrivial": min(distinct, evals),
            "rule": "one evaluation = one evaluation of this property's per-state oracle at a state of a simulated run "
                    "(boot state or state after an operation / fault), summed over all configurations; the runs themselves are counted in simulated_runs "
                    "(run seed = mix(VERIF_SEED, property, run index); each configuration gets its own slice of run indices) and, separately, "
                    "in lattice_boots (the lattice pass: one boot per (slider square, relevant-blocker subset) and per (king, aligned slider, blocker variant), "
                    "at most two operations each - enumeration of boot states, not simulation proper). "
                    "distinct_nontrivial = exact number of distinct positions (placement, side, rights, EP file; clocks stripped; 64-bit FNV of the model state) "
                    "at which the oracle was evaluated and which are not the run's boot position, counted in the magic/release process only "
                    "(a lower bound for the union over configurations). Oracle: " + ORACLE[prop],
            "samples": samples,
            "simulated_runs": runs - sum(p.get("lattice_runs", 0) for p in parts),
            "lattice_boots": {f'{p["backend"]}/{p["profile"]}': p.get("lattice_runs", 0) for p in parts},
            "simulated_steps": steps,
            "simulated_plies": sum(p["plies"] for p in parts),
            "oracle_evaluations": evals,
            "runs_per_hour": int((runs - sum(p.get("lattice_runs", 0) for p in parts)) / wall_f * 3600) if wall_f > 0 else 0,
            "seeds": {"base": int(seed), "run_indices_per_configuration": {f'{p["backend"]}/{p["profile"]}': [p.get("first_index", 0), p.get("first_index", 0) + p.get("runs_requested", p["runs"])] for p in parts}},
            "simulated_time": "logical: plies / operations (the library has no clock); see simulated_plies, simulated_steps",
            "faults_injected": faults,
            "corruption_operators_fired": ops,
            "probes": probes,
            "other_counters": other,
            "foreign_aborts": sum(p["foreign_aborts"] for p in parts),
            "boot_rejected": sum(p["boot_rejected"] for p in parts),
            "configs": {f'{p["backend"]}/{p["profile"]}': {"runs": p["runs"], "steps": p["steps"], "distinct_states": p["distinct_states"], "wall_s": p["wall_s"], "digest": p["digest"], "budget_hit": p["budget_hit"]} for p in parts},
            "components": {"real": ["cozy-chess (Board, BoardBuilder, parser, Display, movegen, util) and cozy-chess-types, compiled from /repo's working tree"], "stub": []},
            "determinism_recheck": {f'{p["backend"]}/{p["profile"]}': p["determinism_recheck"] for p in parts},
            "known_findings_matched": known,
            "reported": [r for p in parts for r in p["reported"]],
            "exhaustive": False,
        },
        "assumptions": ASSUMPTIONS,
        "wall_s": round(wall_f, 3),
        "violations": violations,
    }
    zero = sorted(k for k, v in probes.items() if v == 0)
    json.dump(ev, open(out, "w"), indent=1, ensure_ascii=False)
    if not samples:
        raise SystemExit("no sample trace recorded")
    print(f"evidence written: {out} (runs={runs} steps={steps} oracle_evaluations={evals} distinct={distinct} violations={violations})")
    if zero:
        print("note: probes at zero:", ", ".join(zero))


if __name__ == "__main__":
    main()
