//! Per-property oracles. Every oracle demands only what the property's statement says.

use crate::exec::*;
use crate::model::*;
use crate::ops::*;
use crate::real::*;
use cozy_chess::*;

pub use crate::notation::san_fuzz;
pub use crate::samepos::same_pos_probes;

const PROMOS: [u8; 7] = [0, 1, 2, 3, 4, 5, 6];

/// A fresh board of the model's position, or None. A board that does not read back as that position is
/// not "a fresh board of the same position": the writer/reader defect behind it belongs to C07/C08/C09,
/// so the comparisons that need a fresh board simply do not take place.
fn recover_text(m: &Model) -> Option<Board> {
    match parse_via(&m.to_fen(true), Entry::Sfen) {
        Ok(Ok(b)) if adopt(&b) == *m => Some(b),
        _ => None,
    }
}

fn recover_builder(m: &Model) -> Option<Board> {
    let bb = builder_of(m);
    match guard(|| bb.build()) {
        Ok(Ok(b)) if adopt(&b) == *m => Some(b),
        _ => None,
    }
}

fn state_probes(w: &World, cx: &mut Ctx) {
    let m = &w.model;
    let ch = m.checkers().count_ones();
    if ch == 2 {
        cx.hit("probe_double_check");
    }
    if ch >= 3 {
        cx.hit("probe_three_or_more_checkers");
    }
    if m.ep.is_some() {
        cx.hit("probe_ep_flag_set");
        if ch != 0 {
            let pawn_sq = (if m.stm == WHITE { 4 } else { 3 }) * 8 + m.ep.unwrap() as u64;
            if m.checkers() & !(1u64 << pawn_sq) != 0 {
                cx.hit("probe_ep_state_with_discovered_check");
            } else {
                cx.hit("probe_ep_state_checked_by_pushed_pawn");
            }
        }
        if m.legal_ep_file().is_some() {
            cx.hit("probe_legal_ep_capture_available");
        } else {
            // is there a pawn beside that may not capture?
            let f = m.ep.unwrap() as i8;
            let r = if m.stm == WHITE { 4 } else { 3 };
            let beside_pawn = [-1i8, 1].iter().any(|d| mk(f + d, r).map_or(false, |s| m.sq[s as usize] == Some((PAWN, m.stm))));
            if beside_pawn {
                cx.hit("probe_ep_capture_illegal_pin_or_check");
            }
        }
    }
    if w.legal.is_empty() {
        cx.hit(if ch > 0 { "probe_checkmate" } else { "probe_stalemate" });
    }
    if m.half >= 100 {
        cx.hit("probe_fifty_move_clock_100");
    }
    for wing in 0..2 {
        match m.castle_status(wing) {
            Err("path-attacked") => cx.hit("probe_castle_refused_path_attacked"),
            Err("rook-shielded") => cx.hit("probe_castle_refused_rook_shielded"),
            Err("in-check") => cx.hit("probe_castle_refused_in_check"),
            Err("blocked") => cx.hit("probe_castle_refused_blocked"),
            Ok(_) => cx.hit("probe_castle_available"),
            _ => {}
        }
    }
    if m.pinned() != 0 {
        cx.hit("probe_pinned_piece_present");
    }
}

fn clone_from_base() -> &'static Board {
    // a board in check, with a pin and an EP file: whatever `clone_from` forgets to copy stays visible
    static BASE: std::sync::OnceLock<Board> = std::sync::OnceLock::new();
    BASE.get_or_init(|| Board::from_fen("4k3/8/8/8/8/8/4Q3/3K4 b - - 5 9", false).unwrap_or_default())
}

/// The per-state oracle of the property under check.
pub fn observe(w: &mut World, cx: &mut Ctx) -> R {
    let key = w.model.key();
    // every other state (by position key) is observed - and the history continued - on a copy made with
    // `clone_from` over an unrelated board: a copy of an accepted board is that board
    if key & 2 == 2 {
        let mut c = clone_from_base().clone();
        if guard(|| c.clone_from(&w.real)).is_ok() {
            cx.hit("observed_on_clone_from_copy");
            w.real = c;
        }
    }
    cx.stats.oracle_evals += 1;
    if key != w.boot_key {
        cx.stats.pending_keys.push(key);
    }
    cx.stats.eat(key);
    cx.stats.eat(w.legal.len() as u64);
    state_probes(w, cx);
    match cx.prop {
        Prop::C01 => observe_c01(w, cx),
        Prop::C02 => Ok(()),
        Prop::C03 => observe_c03(w, cx),
        Prop::C04 => sweep_is_legal(w, cx),
        Prop::C06 => observe_c06(w, cx),
        Prop::C07 => observe_c07(w, cx),
        Prop::C08 => observe_c08(w, cx),
        Prop::C09 => observe_c09(w, cx),
        Prop::C10 => observe_c10(w, cx),
        Prop::C12 => observe_c12(w, cx),
        Prop::C13 => observe_c13(w, cx),
        Prop::C14 => observe_c14(w, cx),
        Prop::C15 => observe_c15(w, cx),
        Prop::C16 => observe_c16(w, cx),
        Prop::C20 => crate::notation::observe_c20(w, cx),
    }
}

// ------------------------------------------------------------------------------------- C01

fn observe_c01(w: &World, cx: &mut Ctx) -> R {
    let g = match guard(|| generate(&w.real, BitBoard::FULL)) {
        Ok(g) => g,
        Err(()) => return cx.fail("C01/panic/generate_moves".into(), format!("generate_moves panicked at {}", w.model.to_fen(true))),
    };
    let mut got = g.moves.clone();
    got.sort();
    for i in 1..got.len() {
        if got[i] == got[i - 1] {
            cx.fail("C01/duplicate-move".into(), format!("{} delivered twice at {}", got[i].text(), w.model.to_fen(true)))?;
        }
    }
    got.dedup();
    if got != w.legal {
        let (missing, extra, s) = moves_diff_text(&w.legal, &got);
        let detail = format!("{} at {}", s, w.model.to_fen(true));
        if let Some(x) = extra.first() {
            cx.fail(format!("C01/illegal-move-generated/{}", move_kind(&w.model, *x)), detail.clone())?;
        }
        if let Some(x) = missing.first() {
            cx.fail(format!("C01/legal-move-missing/{}", move_kind(&w.model, *x)), detail)?;
        }
    }
    Ok(())
}

// ------------------------------------------------------------------------------------- C03

fn observe_c03(w: &World, cx: &mut Ctx) -> R {
    let at = w.model.to_fen(true);
    if w.real.checkers().0 != w.model.checkers() {
        cx.fail("C03/checkers-vs-definition".into(), format!("checkers {:016x} expected {:016x} at {}", w.real.checkers().0, w.model.checkers(), at))?;
    }
    if w.real.pinned().0 != w.model.pinned() {
        cx.fail("C03/pinned-vs-definition".into(), format!("pinned {:016x} expected {:016x} at {}", w.real.pinned().0, w.model.pinned(), at))?;
    }
    for (route, rec) in [("text", recover_text(&w.model)), ("builder", recover_builder(&w.model))] {
        match rec {
            // (that a fresh board of a reached position *exists* is C06's promise, not C03's)
            None => cx.hit("restart_refused_unreachable"),
            Some(rec) => {
                if rec.checkers() != w.real.checkers() || rec.pinned() != w.real.pinned() {
                    cx.fail(format!("C03/live-vs-fresh/{}", route), format!("live checkers/pins differ from a fresh board at {}", at))?;
                }
                if rec != w.real {
                    cx.fail(format!("C03/eq-different-routes/{}", route), format!("live board != fresh board of the same position and clocks at {}", at))?;
                }
            }
        }
    }
    Ok(())
}

// ------------------------------------------------------------------------------------- C04

pub fn shape_kind(m: &Model, mv: MMove) -> &'static str {
    move_kind(m, mv)
}

pub fn sweep_is_legal(w: &World, cx: &mut Ctx) -> R {
    let g = match guard(|| generate(&w.real, BitBoard::FULL)) {
        Ok(g) => g,
        Err(()) => return Err(cx.foreign("generate_moves panicked")),
    };
    let mut table = vec![false; 64 * 64 * 7];
    for m in &g.moves {
        table[(m.from as usize * 64 + m.to as usize) * 7 + m.promo as usize] = true;
    }
    cx.hit("sweep_states");
    for from in 0..64u8 {
        for to in 0..64u8 {
            for p in PROMOS {
                let mv = MMove { from, to, promo: p };
                let rm = to_real(mv);
                let ans = match guard(|| w.real.is_legal(rm)) {
                    Ok(a) => a,
                    Err(()) => {
                        cx.fail(format!("C04/panic/{}", shape_kind(&w.model, mv)), format!("is_legal({}) panicked at {}", mv.text(), w.model.to_fen(true)))?;
                        continue;
                    }
                };
                let gen = table[(from as usize * 64 + to as usize) * 7 + p as usize];
                if ans != gen {
                    let class = if ans { "true-but-not-generated" } else { "false-but-generated" };
                    cx.fail(
                        format!("C04/{}/{}", class, shape_kind(&w.model, mv)),
                        format!("is_legal({}) = {} but generation {} it at {}", mv.text(), ans, if gen { "yields" } else { "does not yield" }, w.model.to_fen(true)),
                    )?;
                }
            }
        }
    }
    Ok(())
}

// ------------------------------------------------------------------------------------- C06

fn observe_c06(w: &World, cx: &mut Ctx) -> R {
    check_sound(&w.real, "handed-out", cx)?;
    if w.pure_play {
        // acceptance: a position reached by legal play re-enters through every route
        let plain = w.model.plain_expressible();
        for route in Route::ALL {
            if route.needs_plain() && !plain {
                continue;
            }
            let ok = match route {
                Route::Fen => matches!(parse_via(&w.model.to_fen(false), Entry::Fen), Ok(Ok(_))),
                Route::StrPlain => matches!(parse_via(&w.model.to_fen(false), Entry::FromStr), Ok(Ok(_))),
                Route::Sfen => matches!(parse_via(&w.model.to_fen(true), Entry::Sfen), Ok(Ok(_))),
                Route::StrShredder => matches!(parse_via(&w.model.to_fen(true), Entry::FromStr), Ok(Ok(_))),
                Route::Builder => recover_builder(&w.model).is_some(),
            };
            cx.hit("acceptance_checks");
            if !ok {
                cx.fail(format!("C06/reachable-rejected/{}", route.name()), format!("position reached by legal play refused via {}: {}", route.name(), w.model.to_fen(true)))?;
            }
        }
    }
    Ok(())
}

/// C06 soundness of one board the library handed out.
pub fn check_sound(b: &Board, how: &str, cx: &mut Ctx) -> R {
    cx.hit("boards_checked_for_soundness");
    if !bitboards_consistent(b) {
        return cx.fail(format!("C06/unsound-{}/bitboards-inconsistent", how), format!("{:#}", b));
    }
    let m = adopt(b);
    if let Some(d) = m.unsound() {
        return cx.fail(format!("C06/unsound-{}/{}", how, d), format!("{} ({})", m.to_fen(true), d));
    }
    Ok(())
}

// ------------------------------------------------------------------------------------- C07

fn observe_c07(w: &mut World, cx: &mut Ctx) -> R {
    let want_s = w.model.to_fen(true);
    let got_s = match guard(|| format!("{:#}", w.real)) {
        Ok(s) => s,
        Err(()) => return cx.fail("C07/panic/format".into(), want_s),
    };
    if got_s != want_s {
        cx.fail("C07/shredder-text-not-canonical".into(), format!("got {:?} expected {:?}", got_s, want_s))?;
    }
    // (format flags other than `#` - sign, width, fill, precision - are not asserted: the statement speaks of
    // formatting as FEN / Shredder-FEN, i.e. `{}` and `{:#}`)
    for e in [Entry::Sfen, Entry::FromStr] {
        match parse_via(&got_s, e) {
            Ok(Ok(b)) => {
                if b != w.real {
                    cx.fail(format!("C07/roundtrip-differs/shredder-{}", e.name()), format!("{} reparsed to {:#}", got_s, b))?;
                }
                // parse a canonical record and format it: character for character
                let again = format!("{:#}", b);
                if again != got_s {
                    cx.fail(format!("C07/parse-format-not-identity/shredder-{}", e.name()), format!("{:?} -> {:?}", got_s, again))?;
                }
            }
            Ok(Err(err)) => cx.fail(format!("C07/reparse-failed/shredder-{}", e.name()), format!("{} -> {}", got_s, fen_err_name(&err)))?,
            Err(()) => cx.fail(format!("C07/panic/shredder-{}", e.name()), got_s.clone())?,
        }
    }
    if w.model.plain_expressible() {
        cx.hit("plain_roundtrips");
        let want_p = w.model.to_fen(false);
        let got_p = format!("{}", w.real);
        if got_p != want_p {
            cx.fail("C07/plain-text-not-canonical".into(), format!("got {:?} expected {:?}", got_p, want_p))?;
        }
        for e in [Entry::Fen, Entry::FromStr] {
            match parse_via(&got_p, e) {
                Ok(Ok(b)) => {
                    if b != w.real {
                        cx.fail(format!("C07/roundtrip-differs/plain-{}", e.name()), format!("{} reparsed to {:#}", got_p, b))?;
                    }
                    let again = format!("{}", b);
                    if again != got_p {
                        cx.fail(format!("C07/parse-format-not-identity/plain-{}", e.name()), format!("{:?} -> {:?}", got_p, again))?;
                    }
                }
                Ok(Err(err)) => cx.fail(format!("C07/reparse-failed/plain-{}", e.name()), format!("{} -> {}", got_p, fen_err_name(&err)))?,
                Err(()) => cx.fail(format!("C07/panic/plain-{}", e.name()), got_p.clone())?,
            }
        }
    }
    // two boards are equal exactly when their Shredder texts are equal
    for (b, t) in &w.ring {
        let eq = *b == w.real;
        let teq = *t == got_s;
        if eq != teq {
            cx.fail("C07/eq-iff-text".into(), format!("boards equal: {}, texts equal: {} ({:?} vs {:?})", eq, teq, t, got_s))?;
        }
    }
    // near neighbours (their texts differ, so the boards must not compare equal): another clock value,
    // the EP file cleared or added, one right removed
    {
        let mut near: Vec<(Model, &str)> = vec![];
        let mut m2 = w.model.clone();
        m2.half = if m2.half == 0 { 1 } else { m2.half - 1 };
        near.push((m2, "clocks"));
        let mut m3 = w.model.clone();
        if m3.ep.is_some() {
            m3.ep = None;
            near.push((m3, "en-passant"));
        } else if let Some(f) = (0..8u8).find(|&f| {
            let mut t = w.model.clone();
            t.ep = Some(f);
            t.unsound().is_none()
        }) {
            m3.ep = Some(f);
            near.push((m3, "en-passant"));
        }
        if let Some((c, wing)) = (0..2).flat_map(|c| (0..2).map(move |x| (c, x))).find(|&(c, x)| w.model.rights[c][x].is_some()) {
            let mut m4 = w.model.clone();
            m4.rights[c][wing] = None;
            near.push((m4, "rights"));
        }
        for (mm, what) in near {
            if let Some(b2) = recover_text(&mm) {
                if b2 == w.real && format!("{:#}", b2) != got_s {
                    cx.fail(format!("C07/eq-iff-text/{}", what), format!("boards with different Shredder texts compare equal: {:?} vs {:?}", format!("{:#}", b2), got_s))?;
                }
            }
        }
    }
    if w.ring.len() >= 6 {
        w.ring.remove(0);
    }
    w.ring.push((w.real.clone(), got_s));
    Ok(())
}

// ------------------------------------------------------------------------------------- C08

fn observe_c08(w: &World, cx: &mut Ctx) -> R {
    // (d) plain parsing (FromStr) accepts both notations: whatever the notation-specific entry point
    // accepts for the undamaged record, FromStr accepts too, as the same position
    let mut texts = vec![(w.model.to_fen(true), Entry::Sfen)];
    if w.model.plain_expressible() {
        texts.push((w.model.to_fen(false), Entry::Fen));
    }
    for (t, specific) in texts {
        let spec = match parse_via(&t, specific) {
            Ok(r) => r,
            Err(()) => {
                cx.fail("C08/panic/canonical-record".into(), t.clone())?;
                continue;
            }
        };
        if let Ok(b) = &spec {
            if adopt(b) != w.model {
                cx.fail("C08/denotation/canonical-record".into(), format!("{} parsed to {:#}", t, b))?;
            }
        }
        match parse_via(&t, Entry::FromStr) {
            Ok(Ok(b)) => {
                if adopt(&b) != w.model {
                    cx.fail("C08/denotation/canonical-record".into(), format!("{} parsed to {:#}", t, b))?;
                }
            }
            Ok(Err(e)) => {
                if spec.is_ok() {
                    cx.fail("C08/fromstr-rejects-notation".into(), format!("{} is accepted by {} but FromStr says {}", t, specific.name(), fen_err_name(&e)))?;
                }
            }
            Err(()) => cx.fail("C08/panic/canonical-record".into(), t.clone())?,
        }
    }
    Ok(())
}

// ------------------------------------------------------------------------------------- C09

fn observe_c09(w: &World, cx: &mut Ctx) -> R {
    let r = guard(|| BoardBuilder::from_board(&w.real).build());
    match r {
        Ok(Ok(b)) => {
            if b != w.real {
                cx.fail("C09/from-board-roundtrip/differs".into(), format!("{:#} rebuilt as {:#}", w.real, b))?;
            }
        }
        Ok(Err(e)) => cx.fail("C09/from-board-roundtrip/rejected".into(), format!("{:#} -> {}", w.real, builder_err_name(&e)))?,
        Err(()) => cx.fail("C09/panic/from-board".into(), format!("{:#}", w.real))?,
    }
    Ok(())
}

// ------------------------------------------------------------------------------------- C10

fn observe_c10(w: &mut World, cx: &mut Ctx) -> R {
    let at = w.model.to_fen(true);
    let h = w.real.hash();
    if let Some(rec) = recover_text(&w.model) {
        if rec.hash() != h {
            cx.fail("C10/hash-vs-fresh/text".into(), format!("live {:016x} fresh {:016x} at {}", h, rec.hash(), at))?;
        }
    } else {
        cx.hit("restart_refused_unreachable");
    }
    if let Some(rec) = recover_builder(&w.model) {
        if rec.hash() != h {
            cx.fail("C10/hash-vs-fresh/builder".into(), format!("live {:016x} fresh {:016x} at {}", h, rec.hash(), at))?;
        }
    }
    // clocks never matter
    {
        let mut m2 = w.model.clone();
        m2.half = (m2.half + 37) % 101;
        m2.full = if m2.full > 40000 { 1 } else { m2.full + 12345 };
        if let Some(rec) = recover_text(&m2) {
            if rec.hash() != h {
                cx.fail("C10/hash-depends-on-clocks/record".into(), format!("{} vs {}", at, m2.to_fen(true)))?;
            }
        }
    }
    // hash without en passant == hash of the same position with the EP file cleared
    {
        let mut m2 = w.model.clone();
        m2.ep = None;
        let hw = w.real.hash_without_ep();
        if let Some(rec) = recover_text(&m2) {
            if w.model.ep.is_some() {
                cx.hit("hash_without_ep_on_ep_state");
            }
            if rec.hash() != hw {
                cx.fail("C10/hash-without-ep".into(), format!("hash_without_ep {:016x} but EP-less position hashes {:016x} at {}", hw, rec.hash(), at))?;
            }
        }
        if w.model.ep.is_none() && hw != h {
            cx.fail("C10/hash-without-ep".into(), format!("no EP file yet hash_without_ep differs at {}", at))?;
        }
    }
    // same position reached twice in this run (by whatever route): same hash
    let key = w.model.key();
    if let Some(prev) = w.hash_seen.get(&key) {
        cx.hit("position_revisited_in_run");
        if *prev != h {
            cx.fail("C10/same-position-different-hash".into(), format!("{:016x} earlier, {:016x} now at {}", prev, h, at))?;
        }
    } else {
        w.hash_seen.insert(key, h);
    }
    Ok(())
}

// ------------------------------------------------------------------------------------- C12

fn observe_c12(w: &World, cx: &mut Ctx) -> R {
    let want = w.model.status();
    let names = ["Won", "Drawn", "Ongoing", "Other"];
    match guard(|| w.real.status()) {
        Ok(s) => {
            let got = status_code(s);
            cx.hit(["status_won_states", "status_drawn_states", "status_ongoing_states"][want as usize]);
            if got != want {
                cx.fail(format!("C12/status/expected-{}-got-{}", names[want as usize], names[got as usize]), format!("at {}", w.model.to_fen(true)))?;
            }
        }
        Err(()) => cx.fail("C12/panic".into(), w.model.to_fen(true))?,
    }
    // the same position with the clock pushed to each side of the boundary
    for h in [99u8, 100u8] {
        let mut m2 = w.model.clone();
        m2.half = h;
        if let Some(b) = recover_text(&m2) {
            let want = m2.status();
            if let Ok(s) = guard(|| b.status()) {
                if status_code(s) != want {
                    cx.fail(
                        format!("C12/status/expected-{}-got-{}", names[want as usize], names[status_code(s) as usize]),
                        format!("at {}", m2.to_fen(true)),
                    )?;
                }
            }
        }
    }
    Ok(())
}

// ------------------------------------------------------------------------------------- C13

fn observe_c13(w: &World, cx: &mut Ctx) -> R {
    match guard(|| w.real.same_position(&w.real)) {
        Ok(true) => Ok(()),
        Ok(false) => cx.fail("C13/not-reflexive".into(), w.model.to_fen(true)),
        Err(()) => cx.fail("C13/panic".into(), w.model.to_fen(true)),
    }
}

// ------------------------------------------------------------------------------------- C14

fn observe_c14(w: &World, cx: &mut Ctx) -> R {
    let at = w.model.to_fen(true);
    let rn = match guard(|| w.real.null_move()) {
        Ok(x) => x,
        Err(()) => return cx.fail("C14/panic".into(), at),
    };
    let mn = w.model.null();
    match (rn, mn) {
        (None, None) => {
            cx.hit("F10_null_refused");
            Ok(())
        }
        (Some(_), None) => cx.fail("C14/availability/offered-in-check".into(), at),
        (None, Some(_)) => cx.fail("C14/availability/refused-though-not-in-check".into(), at),
        (Some(rn), Some(mn)) => {
            if w.model.ep.is_some() {
                cx.hit("probe_null_move_on_ep_state");
            }
            let got = adopt(&rn);
            if got != mn {
                let field = if got.sq != mn.sq {
                    "placement"
                } else if got.stm != mn.stm {
                    "side"
                } else if got.rights != mn.rights {
                    "rights"
                } else if got.ep != mn.ep {
                    "en-passant"
                } else if got.half != mn.half {
                    "halfmove"
                } else {
                    "fullmove"
                };
                cx.fail(format!("C14/null-successor/{}", field), format!("null move at {} gave {} expected {}", at, got.to_fen(true), mn.to_fen(true)))?;
                return Ok(());
            }
            if !rn.checkers().is_empty() {
                cx.fail("C14/checkers-not-empty".into(), at.clone())?;
            }
            for (route, rec) in [("text", recover_text(&mn)), ("builder", recover_builder(&mn))] {
                if let Some(rec) = rec {
                    if rec.hash() != rn.hash() {
                        cx.fail(format!("C14/hash-vs-fresh/{}", route), format!("after null move at {}", at))?;
                    }
                    if rec.pinned() != rn.pinned() {
                        cx.fail(format!("C14/pins-vs-fresh/{}", route), format!("after null move at {}: {:016x} vs fresh {:016x}", at, rn.pinned().0, rec.pinned().0))?;
                    }
                    if rec.checkers() != rn.checkers() {
                        cx.fail(format!("C14/checkers-vs-fresh/{}", route), format!("after null move at {}", at))?;
                    }
                    if rec != rn {
                        cx.fail(format!("C14/ne-fresh/{}", route), format!("after null move at {}", at))?;
                    }
                } else {
                    cx.hit("restart_refused_unreachable");
                }
            }
            Ok(())
        }
    }
}

// ------------------------------------------------------------------------------------- C16

pub fn mask_oracle(w: &World, mask: u64, k: Option<u8>, cx: &mut Ctx) -> R {
    let at = w.model.to_fen(true);
    let g = match guard(|| generate(&w.real, BitBoard(mask))) {
        Ok(g) => g,
        Err(()) => return cx.fail("C16/panic".into(), format!("mask {:016x} at {}", mask, at)),
    };
    let mut got = g.moves.clone();
    got.sort();
    let want: Vec<MMove> = w.legal.iter().copied().filter(|x| mask >> x.from & 1 == 1).collect();
    let had_dup = got.windows(2).any(|p| p[0] == p[1]);
    if got != want {
        let (missing, extra, s) = moves_diff_text(&want, &got);
        let detail = format!("mask {:016x}: {} at {}", mask, s, at);
        if let Some(x) = extra.first() {
            let outside = mask >> x.from & 1 == 0;
            cx.fail(format!("C16/mask-set/extra-{}-{}", if outside { "outside-mask" } else { "in-mask" }, move_kind(&w.model, *x)), detail.clone())?;
        } else if let Some(x) = missing.first() {
            cx.fail(format!("C16/mask-set/missing-{}", move_kind(&w.model, *x)), detail)?;
        } else if had_dup {
            cx.fail("C16/mask-set/duplicate".into(), detail)?;
        }
    }
    if g.empty_batch {
        cx.fail("C16/empty-batch".into(), format!("mask {:016x} at {}", mask, at))?;
    }
    if g.batches > 18 {
        cx.fail("C16/too-many-batches".into(), format!("{} batches, mask {:016x} at {}", g.batches, mask, at))?;
    }
    if g.returned {
        cx.fail("C16/returned-true-without-abort".into(), format!("mask {:016x} at {}", mask, at))?;
    }
    if g.batches >= 17 {
        cx.hit("probe_17_or_18_batches");
    }
    cx.stats.add("max_batches_seen_sum", 0);
    if let Some(k) = k {
        abort_at(w, mask, k as usize, g.batches, cx)?;
    }
    Ok(())
}

fn abort_at(w: &World, mask: u64, k: usize, _batches_of_masked_entry: usize, cx: &mut Ctx) -> R {
    // with a full mask both entry points are exercised (the unmasked one on even abort indices); the batch
    // count the abort is judged against is always taken from the same entry point (their partitions may differ)
    let unmasked = mask == !0u64 && k % 2 == 0;
    let mut batches = 0usize;
    let counted = guard(|| {
        let listener = |_: PieceMoves| {
            batches += 1;
            false
        };
        if unmasked {
            w.real.generate_moves(listener)
        } else {
            w.real.generate_moves_for(BitBoard(mask), listener)
        }
    });
    if counted.is_err() {
        return cx.fail("C16/panic".into(), format!("mask {:016x} at {}", mask, w.model.to_fen(true)));
    }
    let mut calls = 0usize;
    let r = guard(|| {
        let listener = |_: PieceMoves| {
            calls += 1;
            calls == k + 1
        };
        if unmasked {
            w.real.generate_moves(listener)
        } else {
            w.real.generate_moves_for(BitBoard(mask), listener)
        }
    });
    let at = w.model.to_fen(true);
    match r {
        Err(()) => cx.fail("C16/panic".into(), format!("abort k={} mask {:016x} at {}", k, mask, at)),
        Ok(ret) => {
            if k < batches {
                cx.hit("aborts_injected");
                if k < 18 {
                    cx.hit(&format!("abort_at_index_{:02}", k));
                }
                if calls != k + 1 {
                    cx.fail("C16/abort/calls-after-true".into(), format!("listener returned true on call {} but was called {} times (mask {:016x}) at {}", k + 1, calls, mask, at))?;
                }
                if !ret {
                    cx.fail("C16/abort/returned-false".into(), format!("aborted on call {} (mask {:016x}) but generation returned false at {}", k + 1, mask, at))?;
                }
            } else {
                if ret {
                    cx.fail("C16/returned-true-without-abort".into(), format!("mask {:016x} at {}", mask, at))?;
                }
                if calls != batches {
                    cx.fail("C16/batch-count-unstable".into(), format!("{} vs {} batches at {}", calls, batches, at))?;
                }
            }
            Ok(())
        }
    }
}

fn observe_c16(w: &World, cx: &mut Ctx) -> R {
    let m = &w.model;
    let mut own = [0u64; 6];
    let mut ours = 0u64;
    let mut theirs = 0u64;
    for s in 0..64 {
        if let Some((k, c)) = m.sq[s] {
            if c == m.stm {
                own[k as usize] |= 1 << s;
                ours |= 1 << s;
            } else {
                theirs |= 1 << s;
            }
        }
    }
    mask_oracle(w, !0u64, None, cx)?;
    mask_oracle(w, 0, None, cx)?;
    mask_oracle(w, theirs, None, cx)?;
    mask_oracle(w, !ours, None, cx)?;
    for k in 0..6 {
        if own[k] != 0 {
            mask_oracle(w, own[k], None, cx)?;
            mask_oracle(w, !own[k], None, cx)?;
        }
    }
    // every abort point of the full generation
    let batches = match guard(|| generate(&w.real, BitBoard::FULL)) {
        Ok(g) => g.batches,
        Err(()) => return cx.fail("C16/panic".into(), m.to_fen(true)),
    };
    for k in 0..=batches {
        abort_at(w, !0u64, k, batches, cx)?;
    }
    Ok(())
}

// ---------------------------------------------------------------------------- C02 / C15 play

pub fn play_oracles(w: &World, mv: MMove, expect: &Model, cx: &mut Ctx) -> R {
    let rm = to_real(mv);
    let at = w.model.to_fen(true);
    let mut a = w.real.clone();
    let mut b = w.real.clone();
    let mut c = w.real.clone();
    let ra = guard(|| a.play(rm));
    let rb = guard(|| b.try_play(rm));
    let rc = guard(|| c.play_unchecked(rm));
    if cx.prop == Prop::C15 {
        if ra.is_err() {
            cx.fail("C15/legal-move-refused/play".into(), format!("play({}) panicked at {}", mv.text(), at))?;
        }
        match rb {
            Ok(Ok(())) => {}
            Ok(Err(_)) => cx.fail("C15/legal-move-refused/try".into(), format!("try_play({}) failed at {}", mv.text(), at))?,
            Err(()) => cx.fail("C15/panic/try_play".into(), format!("try_play({}) panicked at {}", mv.text(), at))?,
        }
        if rc.is_ok() {
            if matches!(rb, Ok(Ok(()))) && b != c {
                cx.fail("C15/try-play-differs-from-unchecked".into(), format!("{} at {}: {:#} vs {:#}", mv.text(), at, b, c))?;
            }
            if ra.is_ok() && a != c {
                cx.fail("C15/play-differs-from-unchecked".into(), format!("{} at {}: {:#} vs {:#}", mv.text(), at, a, c))?;
            }
        }
        return Ok(());
    }
    // C02
    if rc.is_err() {
        return cx.fail("C02/panic/play_unchecked".into(), format!("{} at {}", mv.text(), at));
    }
    // "playing any legal move yields ...": the checked entry points must play it too
    if ra.is_err() {
        cx.fail("C02/legal-move-not-playable/play".into(), format!("play({}) panicked on a legal move at {}", mv.text(), at))?;
    }
    if !matches!(rb, Ok(Ok(()))) {
        cx.fail("C02/legal-move-not-playable/try".into(), format!("try_play({}) refused a legal move at {}", mv.text(), at))?;
    }
    let got = adopt(&c);
    let kind = move_kind(&w.model, mv);
    let detail = format!("{} ({}) at {}: got {} expected {}", mv.text(), kind, at, got.to_fen(true), expect.to_fen(true));
    if got.sq != expect.sq {
        cx.fail(format!("C02/successor/placement-{}", kind), detail.clone())?;
    }
    if !bitboards_consistent(&c) {
        cx.fail(format!("C02/successor/bitboards-{}", kind), detail.clone())?;
    }
    if got.stm != expect.stm {
        cx.fail("C02/successor/side".into(), detail.clone())?;
    }
    if got.rights != expect.rights {
        cx.fail(format!("C02/successor/rights-{}", kind), detail.clone())?;
    }
    if got.ep != expect.ep {
        cx.fail(format!("C02/successor/en-passant-{}", kind), detail.clone())?;
    }
    if got.half != expect.half {
        cx.fail(format!("C02/successor/halfmove-{}", kind), detail.clone())?;
    }
    if got.full != expect.full {
        cx.fail("C02/successor/fullmove".into(), detail.clone())?;
    }
    let _ = detail;
    // every entry point that plays the move must yield the prescribed position (accessor level: the
    // statement lists placement, side, rights, EP file and clocks; hash, pins and text are other properties')
    if ra.is_ok() && adopt(&a) != *expect {
        cx.fail("C02/successor/via-play".into(), format!("{} at {}: play gave {} expected {}", mv.text(), at, adopt(&a).to_fen(true), expect.to_fen(true)))?;
    }
    if matches!(rb, Ok(Ok(()))) && adopt(&b) != *expect {
        cx.fail("C02/successor/via-try_play".into(), format!("{} at {}: try_play gave {} expected {}", mv.text(), at, adopt(&b).to_fen(true), expect.to_fen(true)))?;
    }
    Ok(())
}

// -------------------------------------------------------------------- C15 requests (F1 / F2)

pub fn request(w: &mut World, mv: MMove, via: Via, cx: &mut Ctx) -> R {
    let expected = w.legal.contains(&mv);
    let kind = move_kind(&w.model, mv);
    let at = w.model.to_fen(true);
    let rm = to_real(mv);
    let pre = w.real.clone();
    let pre_text = format!("{:#} | {}", pre, pre);
    let owner = cx.prop == Prop::C15;
    if !expected {
        cx.hit(&format!("illegal_request_{}", kind));
    }
    let mut next = w.real.clone();
    let succeeded: bool;
    match via {
        Via::TryPlay | Via::Unchecked => {
            match guard(|| next.try_play(rm)) {
                Err(()) => {
                    if owner {
                        cx.fail(format!("C15/panic/try_play-{}", kind), format!("try_play({}) panicked at {}", mv.text(), at))?;
                    }
                    return Err(cx.foreign("try_play panicked"));
                }
                Ok(r) => succeeded = r.is_ok(),
            }
        }
        Via::Play => {
            succeeded = guard(|| next.play(rm)).is_ok();
        }
    }
    if succeeded != expected {
        let what = format!("{}({}) {} but the move is {} at {}", via.name(), mv.text(), if succeeded { "succeeded" } else { "failed" }, if expected { "legal" } else { "illegal" }, at);
        if owner {
            let class = match (via, expected) {
                (Via::Play, false) => format!("C15/play-did-not-panic/{}", kind),
                (Via::Play, true) => "C15/legal-move-refused/play".to_string(),
                (_, false) => format!("C15/illegal-move-accepted/{}", kind),
                (_, true) => "C15/legal-move-refused/try".to_string(),
            };
            cx.fail(class, what.clone())?;
            if succeeded {
                return Err(Stop::Foreign("diverged after known finding".into()));
            }
        } else {
            return Err(cx.foreign(&what));
        }
    }
    if !succeeded {
        // the board must be unchanged in every observable respect
        if owner {
            let post_text = format!("{:#} | {}", next, next);
            if next != pre || post_text != pre_text || adopt(&next) != w.model || next.hash() != pre.hash() || next.checkers() != pre.checkers() || next.pinned() != pre.pinned() {
                cx.fail(
                    format!("C15/board-changed-after-{}", if via == Via::Play { "panic" } else { "reject" }),
                    format!("{}({}) at {}: before {} after {}", via.name(), mv.text(), at, pre_text, post_text),
                )?;
            }
        } else if next != pre {
            return Err(cx.foreign("board changed after rejected request"));
        }
        w.real = next;
        return Ok(());
    }
    // legal request: the history advances
    if owner {
        let mut u = pre.clone();
        if guard(|| u.play_unchecked(rm)).is_ok() && u != next {
            cx.fail("C15/try-play-differs-from-unchecked".into(), format!("{} at {}", mv.text(), at))?;
        }
    }
    w.real = next;
    w.model.make(mv);
    w.refresh();
    cx.stats.plies += 1;
    w.sync_or(cx, &[Prop::C02], "successor", &format!("after requested {}", mv.text()))?;
    observe(w, cx)
}

/// Per-state part of C15: every request that moves the king (64 destinations, with and without a
/// promotion piece) - the castling-shaped requests are the ones with the most special-case code.
fn observe_c15(w: &World, cx: &mut Ctx) -> R {
    let Some(k) = w.model.king_sq(w.model.stm) else { return Ok(()) };
    let at = w.model.to_fen(true);
    for to in 0..64u8 {
        for promo in [0u8, 5] {
            let mv = MMove { from: k, to, promo };
            let legal = w.legal.contains(&mv);
            let mut c = w.real.clone();
            match guard(|| c.try_play(to_real(mv))) {
                Err(()) => cx.fail(format!("C15/panic/try_play-{}", move_kind(&w.model, mv)), format!("{} at {}", mv.text(), at))?,
                Ok(r) => {
                    if r.is_ok() != legal {
                        let class = if legal { "C15/legal-move-refused/try".to_string() } else { format!("C15/illegal-move-accepted/{}", move_kind(&w.model, mv)) };
                        cx.fail(class, format!("try_play({}) = {:?}, legal = {} at {}", mv.text(), r.is_ok(), legal, at))?;
                    } else if r.is_err() && c != w.real {
                        cx.fail("C15/board-changed-after-reject".into(), format!("{} at {}", mv.text(), at))?;
                    }
                }
            }
        }
    }
    Ok(())
}

pub fn sweep_try_play(w: &World, cx: &mut Ctx) -> R {
    cx.hit("sweep_states");
    let at = w.model.to_fen(true);
    let mut table = vec![false; 64 * 64 * 7];
    for m in &w.legal {
        table[(m.from as usize * 64 + m.to as usize) * 7 + m.promo as usize] = true;
    }
    let mut n = 0u64;
    for from in 0..64u8 {
        for to in 0..64u8 {
            for p in PROMOS {
                let mv = MMove { from, to, promo: p };
                let rm = to_real(mv);
                let legal = table[(from as usize * 64 + to as usize) * 7 + p as usize];
                let mut c = w.real.clone();
                let r = match guard(|| c.try_play(rm)) {
                    Ok(r) => r,
                    Err(()) => {
                        cx.fail(format!("C15/panic/try_play-{}", move_kind(&w.model, mv)), format!("{} at {}", mv.text(), at))?;
                        continue;
                    }
                };
                if r.is_ok() != legal {
                    let class = if legal { "C15/legal-move-refused/try".to_string() } else { format!("C15/illegal-move-accepted/{}", move_kind(&w.model, mv)) };
                    cx.fail(class, format!("try_play({}) = {:?}, legal = {} at {}", mv.text(), r.is_ok(), legal, at))?;
                } else if r.is_err() && c != w.real {
                    cx.fail("C15/board-changed-after-reject".into(), format!("{} at {}", mv.text(), at))?;
                } else if r.is_ok() {
                    let mut u = w.real.clone();
                    if guard(|| u.play_unchecked(rm)).is_ok() && u != c {
                        cx.fail("C15/try-play-differs-from-unchecked".into(), format!("{} at {}", mv.text(), at))?;
                    }
                }
                // the panicking variant: every legal move, and a deterministic 1-in-16 slice of the rest
                n += 1;
                if legal || n % 16 == (from as u64 + to as u64) % 16 {
                    let mut c = w.real.clone();
                    let panicked = guard(|| c.play(rm)).is_err();
                    if panicked == legal {
                        let class = if legal { "C15/legal-move-refused/play".to_string() } else { format!("C15/play-did-not-panic/{}", move_kind(&w.model, mv)) };
                        cx.fail(class, format!("play({}) panicked = {}, legal = {} at {}", mv.text(), panicked, legal, at))?;
                    } else if panicked && c != w.real {
                        cx.fail("C15/board-changed-after-panic".into(), format!("{} at {}", mv.text(), at))?;
                    }
                }
            }
        }
    }
    Ok(())
}

// ---------------------------------------------------------------------------- restart (F4/F5)

pub fn restart(w: &mut World, route: Route, cx: &mut Ctx) -> R {
    if route.needs_plain() && !w.model.plain_expressible() {
        // plain FEN is lossy by design for inner-file rights: not a restart route here
        cx.hit("restart_skipped_plain_inexpressible");
        return Ok(());
    }
    let at = w.model.to_fen(true);
    // persist with the library's own writer, drop the board, recover
    let (res, text): (Result<Result<Board, String>, ()>, String) = match route {
        Route::Builder => {
            let r = guard(|| BoardBuilder::from_board(&w.real).build());
            (r.map(|x| x.map_err(|e| builder_err_name(&e).to_string())), "<builder>".to_string())
        }
        _ => {
            let text = if route.needs_plain() { format!("{}", w.real) } else { format!("{:#}", w.real) };
            let e = match route {
                Route::Fen => Entry::Fen,
                Route::Sfen => Entry::Sfen,
                _ => Entry::FromStr,
            };
            (parse_via(&text, e).map(|x| x.map_err(|e| fen_err_name(&e).to_string())), text)
        }
    };
    let owner_prop = if route == Route::Builder { Prop::C09 } else { Prop::C07 };
    let rec = match res {
        Err(()) => {
            if cx.prop == owner_prop {
                cx.fail(format!("{}/panic/restart-{}", owner_prop.name(), route.name()), format!("{} at {}", text, at))?;
            }
            return Err(cx.foreign("recovery panicked"));
        }
        Ok(Err(e)) => {
            if w.pure_play {
                let what = format!("recovery via {} of a position reached by legal play failed with {}: {} ({})", route.name(), e, text, at);
                match cx.prop {
                    Prop::C06 => cx.fail(format!("C06/reachable-rejected/{}", route.name()), what)?,
                    Prop::C07 if route != Route::Builder => cx.fail(format!("C07/reparse-failed/{}", route.name()), what)?,
                    Prop::C09 if route == Route::Builder => cx.fail("C09/from-board-roundtrip/rejected".into(), what)?,
                    _ => return Err(cx.foreign(&what)),
                }
            } else {
                cx.hit("restart_refused_unreachable");
            }
            return Ok(());
        }
        Ok(Ok(b)) => b,
    };
    cx.hit(&format!("restart_{}", route.name()));
    if rec != w.real {
        let what = format!("live board != board recovered via {} ({}) at {}", route.name(), text, at);
        // C03 / C10 speak of a fresh board *of the same position*: they only own the difference when the
        // recovered board denotes the position the live board denotes (else the writer/reader is at fault)
        let same_denotation = adopt(&rec) == w.model;
        match cx.prop {
            Prop::C07 if route != Route::Builder => cx.fail(format!("C07/roundtrip-differs/{}", route.name()), what)?,
            Prop::C09 if route == Route::Builder => cx.fail("C09/from-board-roundtrip/differs".into(), what)?,
            Prop::C03 if same_denotation => cx.fail(format!("C03/eq-different-routes/{}", route.name()), what)?,
            Prop::C10 if same_denotation && rec.hash() != w.real.hash() => cx.fail(format!("C10/hash-vs-fresh/{}", route.name()), what)?,
            _ => cx.hit("restart_live_ne_recovered_foreign"),
        }
    }
    w.real = rec;
    w.sync_or(cx, &[owner_prop], "denotation", &format!("after restart via {}", route.name()))?;
    observe(w, cx)
}

pub fn after_clock_change(w: &World, before: &Board, how: &str, cx: &mut Ctx) -> R {
    match cx.prop {
        Prop::C10 => {
            if before.hash() != w.real.hash() {
                cx.fail(format!("C10/hash-depends-on-clocks/{}", how), format!("at {}", w.model.to_fen(true)))?;
            }
        }
        Prop::C13 => {
            let a = guard(|| before.same_position(&w.real));
            let b = guard(|| w.real.same_position(before));
            if a != Ok(true) || b != Ok(true) {
                cx.fail(format!("C13/clocks-matter/{}", how), format!("at {}", w.model.to_fen(true)))?;
            }
        }
        _ => {}
    }
    Ok(())
}

// --------------------------------------------------------------------------------- fork (F8)

pub fn fork(w: &mut World, a: &[MMove], b: &[MMove], cx: &mut Ctx) -> R {
    let start = w.model.to_fen(true);
    let mut ma = w.model.clone();
    let mut mb = w.model.clone();
    for (seq, m) in [(a, &mut ma), (b, &mut mb)] {
        for mv in seq {
            if !m.legal_moves().contains(mv) {
                return Err(Stop::Invalid(format!("fork move {} not legal in the model", mv.text())));
            }
            m.make(*mv);
        }
    }
    if !ma.same_core(&mb) {
        return Err(Stop::Invalid("fork branches do not reconverge in the model".into()));
    }
    let mut ra = w.real.clone();
    let mut rb = w.real.clone();
    for (seq, r) in [(a, &mut ra), (b, &mut rb)] {
        for mv in seq {
            let rm = to_real(*mv);
            if guard(|| r.play(rm)).is_err() {
                return Err(cx.foreign("legal move refused inside a fork"));
            }
        }
    }
    cx.hit("probe_transposition_reconverged");
    let same_clocks = ma.half == mb.half && ma.full == mb.full;
    let what = format!("from {}: [{}] vs [{}]", start, a.iter().map(|m| m.text()).collect::<Vec<_>>().join(" "), b.iter().map(|m| m.text()).collect::<Vec<_>>().join(" "));
    if adopt(&ra) == ma && adopt(&rb) == mb {
        match cx.prop {
            Prop::C10 => {
                if ra.hash() != rb.hash() {
                    cx.fail("C10/transposition-hash".into(), what)?;
                }
            }
            Prop::C03 => {
                if ra.checkers() != rb.checkers() || ra.pinned() != rb.pinned() {
                    cx.fail("C03/routes-disagree-on-checkers-or-pins".into(), what.clone())?;
                }
                if same_clocks && ra != rb {
                    cx.fail("C03/eq-different-routes/transposition".into(), what)?;
                }
                if same_clocks {
                    cx.hit("fork_with_equal_clocks");
                }
            }
            Prop::C13 => {
                if guard(|| ra.same_position(&rb)) != Ok(true) || guard(|| rb.same_position(&ra)) != Ok(true) {
                    cx.fail("C13/transposition-not-same".into(), what)?;
                }
            }
            Prop::C07 => {
                let (ta, tb) = (format!("{:#}", ra), format!("{:#}", rb));
                if (ra == rb) != (ta == tb) {
                    cx.fail("C07/eq-iff-text".into(), what)?;
                }
            }
            _ => {}
        }
    }
    w.real = ra;
    w.model = ma;
    w.refresh();
    cx.stats.plies += a.len() as u64;
    w.sync_or(cx, &[Prop::C02], "successor", "after fork")?;
    observe(w, cx)
}
