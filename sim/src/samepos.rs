//! C13: pairs produced by faults around the current state, judged by the model's FIDE identity.

use crate::exec::*;
use crate::model::*;
use crate::real::*;
use cozy_chess::*;

fn parse_model(m: &Model) -> Option<Board> {
    match parse_via(&m.to_fen(true), Entry::Sfen) {
        // only a board that reads back as the model's position is a legitimate partner for a pair
        Ok(Ok(b)) if adopt(&b) == *m => Some(b),
        _ => None,
    }
}

fn ask(a: &Board, b: &Board) -> Result<(bool, bool), ()> {
    Ok((guard(|| a.same_position(b))?, guard(|| b.same_position(a))?))
}

/// what stands beside the pushed pawn, for the class name
fn ep_situation(m: &Model) -> &'static str {
    let Some(f) = m.ep else { return "no-ep" };
    let f = f as i8;
    let r = if m.stm == WHITE { 4 } else { 3 };
    let beside: Vec<(u8, u8)> = [-1i8, 1].iter().filter_map(|d| mk(f + d, r)).filter_map(|s| m.sq[s as usize]).filter(|x| x.1 == m.stm).collect();
    if m.legal_ep_file().is_some() {
        "legal-capture"
    } else if beside.iter().any(|x| x.0 == PAWN) {
        "pawn-beside-cannot-capture"
    } else if !beside.is_empty() {
        "nonpawn-beside"
    } else {
        "nothing-beside"
    }
}

fn check_pair(a: &Board, am: &Model, b: &Board, bm: &Model, tag: &str, cx: &mut Ctx) -> R {
    let want = am.same_position(bm);
    cx.hit("same_position_pairs");
    let detail = format!("{}  vs  {}", am.to_fen(true), bm.to_fen(true));
    match ask(a, b) {
        Err(()) => cx.fail("C13/panic".into(), detail),
        Ok((x, y)) => {
            if x != y {
                cx.fail(format!("C13/not-symmetric/{}", tag), detail.clone())?;
            }
            if x != want {
                cx.fail(format!("C13/{}/{}", if want { "same-reported-different" } else { "different-reported-same" }, tag), detail)?;
            }
            Ok(())
        }
    }
}

pub fn same_pos_probes(w: &World, cx: &mut Ctx) -> R {
    let m = &w.model;
    let live = &w.real;
    // 1. clocks never matter
    let mut c1 = m.clone();
    c1.half = (m.half + 13) % 101;
    c1.full = if m.full > 60000 { 7 } else { m.full + 1000 };
    let mut c2 = m.clone();
    c2.half = (m.half + 50) % 101;
    c2.full = 1;
    let b1 = parse_model(&c1);
    let b2 = parse_model(&c2);
    if let Some(b1) = &b1 {
        check_pair(live, m, b1, &c1, "clocks", cx)?;
    }
    // transitivity on a class of three plus an outsider (checked through the model's verdicts)
    if let (Some(b1), Some(b2)) = (&b1, &b2) {
        check_pair(b1, &c1, b2, &c2, "clocks", cx)?;
        check_pair(live, m, b2, &c2, "clocks", cx)?;
        cx.hit("transitivity_triples");
    }
    // 2. en-passant file with and without a legal capture
    if m.ep.is_some() {
        let sit = ep_situation(m);
        cx.hit(&format!("probe_same_position_ep_{}", sit));
        let mut e = m.clone();
        e.ep = None;
        e.half = (m.half + 7) % 101;
        if let Some(be) = parse_model(&e) {
            check_pair(live, m, &be, &e, &format!("ep-{}", sit), cx)?;
            if let Some(b1) = &b1 {
                // transitivity: live ~ b1 always; so (b1 ~ be) must equal (live ~ be)
                check_pair(b1, &c1, &be, &e, &format!("ep-{}", sit), cx)?;
            }
        }
        // an EP flag on another file (when the position supports one)
        for f in 0..8u8 {
            if Some(f) == m.ep {
                continue;
            }
            let mut o = m.clone();
            o.ep = Some(f);
            if o.unsound().is_none() {
                if let Some(bo) = parse_model(&o) {
                    check_pair(live, m, &bo, &o, "ep-other-file", cx)?;
                    break;
                }
            }
        }
    } else {
        // give the position an EP flag if it supports one
        for f in 0..8u8 {
            let mut o = m.clone();
            o.ep = Some(f);
            if o.unsound().is_none() {
                if let Some(bo) = parse_model(&o) {
                    let sit = ep_situation(&o);
                    cx.hit(&format!("probe_same_position_ep_{}", sit));
                    check_pair(live, m, &bo, &o, &format!("ep-{}", sit), cx)?;
                    break;
                }
            }
        }
    }
    // 3. one right removed
    'rights: for c in 0..2 {
        for wing in 0..2 {
            if m.rights[c][wing].is_some() {
                let mut r = m.clone();
                r.rights[c][wing] = None;
                if let Some(br) = parse_model(&r) {
                    check_pair(live, m, &br, &r, "rights", cx)?;
                    break 'rights;
                }
            }
        }
    }
    // 3b. a right moved to another own rook on the same wing (two rooks on one side of the king)
    'moved: for c in 0..2u8 {
        let Some(k) = m.king_sq(c) else { continue };
        let back = if c == WHITE { 0 } else { 7 };
        for wing in 0..2usize {
            let Some(cur) = m.rights[c as usize][wing] else { continue };
            for f in 0..8u8 {
                let same_wing = if wing == 0 { (f as i8) > file_of(k) } else { (f as i8) < file_of(k) };
                if f != cur && same_wing && m.sq[mk(f as i8, back).unwrap() as usize] == Some((ROOK, c)) {
                    let mut r = m.clone();
                    r.rights[c as usize][wing] = Some(f);
                    if r.unsound().is_none() {
                        if let Some(br) = parse_model(&r) {
                            cx.hit("probe_same_position_right_on_other_rook");
                            check_pair(live, m, &br, &r, "rights-other-rook", cx)?;
                            break 'moved;
                        }
                    }
                }
            }
        }
    }
    // 4. one piece removed or changed (kept sound)
    let mut done = 0;
    for s in 0..64usize {
        if done >= 2 {
            break;
        }
        if let Some((k, c)) = m.sq[s] {
            if k == KING {
                continue;
            }
            let mut p = m.clone();
            p.sq[s] = if k == QUEEN { Some((ROOK, c)) } else { None };
            if p.unsound().is_none() {
                if let Some(bp) = parse_model(&p) {
                    check_pair(live, m, &bp, &p, "placement", cx)?;
                    done += 1;
                }
            }
        }
    }
    // 5. the other side to move
    {
        let mut s = m.clone();
        s.stm ^= 1;
        s.ep = None;
        if s.unsound().is_none() {
            if let Some(bs) = parse_model(&s) {
                check_pair(live, m, &bs, &s, "side", cx)?;
            }
        }
    }
    Ok(())
}
