//! The client / fault scheduler: every choice is drawn from one PRNG per run.
//! Generation reads only the model side of the world, never the real library.

use crate::exec::{Prop, World};
use crate::model::*;
use crate::ops::*;
use crate::rng::{mix, Rng};
use crate::synth;

pub const ROOTS_TXT: &str = include_str!("../../roots/roots.txt");

pub fn roots() -> Vec<Model> {
    ROOTS_TXT
        .lines()
        .map(|l| l.trim())
        .filter(|l| !l.is_empty() && !l.starts_with('#') && !l.starts_with("line "))
        .map(|l| l.strip_prefix("reachable ").unwrap_or(l))
        .map(|l| decode(l, false).unwrap_or_else(|| panic!("curated root is not a canonical record: {}", l)).0)
        .collect()
}

/// Opening lines from the standard start position (boot = start constructor + these moves).
pub fn lines() -> Vec<Vec<MMove>> {
    ROOTS_TXT
        .lines()
        .filter_map(|l| l.trim().strip_prefix("line "))
        .map(|l| l.split_whitespace().map(|m| MMove::parse(m).unwrap_or_else(|| panic!("bad move in curated line: {}", m))).collect())
        .collect()
}

/// The curated slot (run index % 8 == 4) alternates between records and opening lines.
pub fn line_for(index: u64) -> Option<Vec<MMove>> {
    if index % 8 != 4 || (index / 8) % 3 != 2 {
        return None;
    }
    let l = lines();
    if l.is_empty() {
        return None;
    }
    Some(l[((index / 24) % l.len() as u64) as usize].clone())
}

/// Is this (canonical Shredder) record one of the curated roots marked as reachable by legal play?
pub fn is_reachable_root(text: &str) -> bool {
    ROOTS_TXT.lines().filter_map(|l| l.trim().strip_prefix("reachable ")).any(|l| decode(l, false).map_or(false, |d| d.0.to_fen(true) == text))
}

/// Per-run swarm configuration.
#[derive(Clone, Debug)]
pub struct Swarm {
    pub len: usize,
    pub fault_free: bool,
    pub w_play: u32,
    pub w_null: u32,
    pub w_restart: u32,
    pub w_clock: u32,
    pub w_request: u32,
    pub w_fork: u32,
    pub w_special: u32,
    pub bias_capture: u32,
    pub bias_pawn: u32,
    pub bias_castle: u32,
    pub bias_rights: u32,
    pub after_event_fault: u32, // per mille chance to fire a fault right after a delicate event
}

pub struct Gen {
    pub prop: Prop,
    pub rng: Rng,
    pub swarm: Swarm,
    pub produced: usize,
    pub swept: bool,
    /// moves to play first (curated opening line)
    pub prefix: Vec<MMove>,
    last_delicate: bool,
}

pub fn run_seed(base: u64, prop: Prop, config: u64, index: u64) -> u64 {
    mix(&[base, prop.code(), config, index])
}

fn pick_route(rng: &mut Rng, m: &Model) -> Route {
    loop {
        let r = *rng.pick(&Route::ALL);
        if r.needs_plain() && !m.plain_expressible() {
            continue;
        }
        return r;
    }
}

/// Boot kind is stratified by run index so that coverage is a function of the run count.
pub fn boot_for(base_seed: u64, index: u64, rng: &mut Rng, roots: &[Model]) -> Boot {
    match index % 8 {
        0..=3 => {
            let j = (index / 8) * 4 + (index % 8);
            let offset = mix(&[base_seed, 0xB007]) % 921_600;
            let p = (j.wrapping_mul(7919) + offset) % 921_600;
            // one start boot in 32 uses equal indices (plain Chess960), one in 128 the standard position
            if j % 32 == 5 {
                let n = if j % 128 == 5 { 518 } else { (p % 960) as u32 };
                return Boot::Start(n, n);
            }
            Boot::Start((p % 960) as u32, (p / 960) as u32)
        }
        4 if line_for(index).is_some() => Boot::Start(518, 518),
        4 => {
            let m = &roots[((index / 8) % roots.len() as u64) as usize];
            Boot::Text(m.to_fen(true), pick_route(rng, m))
        }
        7 => {
            // slider lattice: (slider square, blocker subset) walked systematically; the counter is mapped
            // through a bijection so that consecutive boots are spread over the table
            let n = synth::lattice_entries();
            let j = index / 8;
            let e = (j % n).wrapping_mul(48_271) % n; // 48271 is prime and coprime to n = 116 384
            let m = synth::lattice(e, rng).unwrap_or_else(|| synth::synth_sound(rng, (j % synth::THEMES.len() as u64) as usize));
            Boot::Text(m.to_fen(true), pick_route(rng, &m))
        }
        _ => {
            let theme = ((index / 8) * 3 + (index % 8 - 5)) as usize % synth::THEMES.len();
            let m = synth::synth_sound(rng, theme);
            Boot::Text(m.to_fen(true), pick_route(rng, &m))
        }
    }
}

impl Gen {
    pub fn new(prop: Prop, seed: u64, long: bool) -> Gen {
        let mut rng = Rng::new(seed);
        let cap = match prop {
            Prop::C04 | Prop::C08 | Prop::C20 => 40,
            Prop::C16 | Prop::C15 | Prop::C09 | Prop::C06 => 60,
            _ => 120,
        };
        // the thorough tier makes a quarter of its runs three times as long
        let cap = if long && rng.chance(1, 4) { cap * 3 } else { cap };
        // many short runs, some long ones
        let len = match rng.below(4) {
            0 => 1 + rng.below(6) as usize,
            1 => 1 + rng.below(24) as usize,
            _ => 1 + rng.below(cap) as usize,
        };
        let fault_free = rng.chance(1, 8);
        let lvl = rng.below(3) as u32; // fault intensity
        let swarm = Swarm {
            len,
            fault_free,
            w_play: 100,
            w_null: [2, 6, 14][rng.below(3) as usize],
            w_restart: if fault_free { 0 } else { [3, 8, 16][lvl as usize] },
            w_clock: if fault_free { 0 } else { [1, 3, 8][rng.below(3) as usize] },
            w_request: if fault_free { 0 } else { [2, 6, 12][lvl as usize] },
            w_fork: if fault_free { 0 } else { [1, 3, 6][rng.below(3) as usize] },
            w_special: if fault_free { 0 } else { [6, 15, 30][lvl as usize] },
            bias_capture: [0, 3, 8][rng.below(3) as usize],
            bias_pawn: [0, 2, 5][rng.below(3) as usize],
            bias_castle: [5, 20, 60][rng.below(3) as usize],
            bias_rights: [0, 3, 8][rng.below(3) as usize],
            after_event_fault: if fault_free { 0 } else { [0, 300, 700][rng.below(3) as usize] },
        };
        Gen { prop, rng, swarm, produced: 0, swept: false, prefix: vec![], last_delicate: false }
    }

    fn choose_move(&mut self, w: &World) -> Option<MMove> {
        if w.legal.is_empty() {
            return None;
        }
        let m = &w.model;
        let us = m.stm as usize;
        let mut weights: Vec<u32> = Vec::with_capacity(w.legal.len());
        for &mv in &w.legal {
            let mut wt = 2u32;
            let (k, _) = m.sq[mv.from as usize].unwrap();
            if m.is_castle(mv) {
                wt += self.swarm.bias_castle;
            } else {
                if m.is_capture(mv) {
                    wt += self.swarm.bias_capture;
                    if m.is_ep_capture(mv) {
                        wt += 30;
                    }
                    let their_back = if m.stm == WHITE { 7 } else { 0 };
                    if rank_of(mv.to) == their_back && m.rights[us ^ 1].iter().any(|r| *r == Some(file_of(mv.to) as u8)) {
                        wt += self.swarm.bias_rights * 3;
                    }
                }
                if k == PAWN {
                    wt += self.swarm.bias_pawn;
                    if (rank_of(mv.to) - rank_of(mv.from)).abs() == 2 {
                        wt += self.swarm.bias_pawn;
                        // a double push that gives check (by the pawn or by a piece behind it) is the
                        // delicate case of the EP validity rules: make it frequent
                        let mut n = m.clone();
                        n.make(mv);
                        if n.in_check(n.stm) {
                            wt += 40;
                        }
                    }
                }
                if mv.promo != 0 {
                    wt += 6;
                }
                if (k == KING || k == ROOK) && m.rights[us].iter().any(|r| r.is_some()) {
                    wt += self.swarm.bias_rights;
                }
            }
            weights.push(wt);
        }
        let total: u64 = weights.iter().map(|&x| x as u64).sum();
        let mut r = self.rng.below(total);
        for (i, &wt) in weights.iter().enumerate() {
            if r < wt as u64 {
                return Some(w.legal[i]);
            }
            r -= wt as u64;
        }
        Some(*w.legal.last().unwrap())
    }

    /// A request that is probably illegal, biased to near-legal shapes.
    fn near_illegal(&mut self, w: &World) -> MMove {
        let m = &w.model;
        let rng = &mut self.rng;
        let us = m.stm;
        let own: Vec<u8> = (0..64u8).filter(|&s| matches!(m.sq[s as usize], Some((_, c)) if c == us)).collect();
        let strat = rng.below(12);
        let any = |rng: &mut Rng| MMove { from: rng.below(64) as u8, to: rng.below(64) as u8, promo: rng.below(7) as u8 };
        match strat {
            0 => any(rng),
            1 | 2 => {
                // a legal move with a promotion piece it must not carry (incl. pawn / king)
                if w.legal.is_empty() {
                    return any(rng);
                }
                let mut mv = *rng.pick(&w.legal);
                mv.promo = if mv.promo != 0 { [0u8, 1, 6][rng.below(3) as usize] } else { 1 + rng.below(6) as u8 };
                mv
            }
            3 => {
                // a legal move with its target shifted by one square
                if w.legal.is_empty() {
                    return any(rng);
                }
                let mut mv = *rng.pick(&w.legal);
                let d = [(0i8, 1i8), (1, 0), (0, -1), (-1, 0), (1, 1), (-1, -1)][rng.below(6) as usize];
                if let Some(t) = mk(file_of(mv.to) + d.0, rank_of(mv.to) + d.1) {
                    mv.to = t;
                }
                mv
            }
            4 => {
                // an enemy piece, or an empty origin
                let from = rng.below(64) as u8;
                MMove { from, to: rng.below(64) as u8, promo: 0 }
            }
            5 | 6 => {
                // the king: castling shapes (own rook squares, g/c files), steps into attack
                let k = m.king_sq(us).unwrap();
                let back = k & 0x38;
                let targets: Vec<u8> = (0..8u8).map(|f| back | f).collect();
                let to = if rng.chance(2, 3) {
                    *rng.pick(&targets)
                } else {
                    let d = [(0i8, 1i8), (1, 1), (1, 0), (1, -1), (0, -1), (-1, -1), (-1, 0), (-1, 1)][rng.below(8) as usize];
                    mk(file_of(k) + d.0, rank_of(k) + d.1).unwrap_or(k)
                };
                MMove { from: k, to, promo: if rng.chance(1, 10) { 5 } else { 0 } }
            }
            7 => {
                // en-passant shapes: any own pawn to the passed square
                let r = if us == WHITE { 5 } else { 2 };
                let f = m.ep.unwrap_or(rng.below(8) as u8);
                let to = r * 8 + f;
                let pr = if us == WHITE { 4 } else { 3 };
                let from = (pr * 8) as u8 + ((f as i8 + if rng.chance(1, 2) { 1 } else { -1 }).clamp(0, 7)) as u8;
                MMove { from, to, promo: 0 }
            }
            8 | 9 => {
                // a pinned piece, or any own piece, along its geometry regardless of king safety
                let pinned: Vec<u8> = own.iter().copied().filter(|&s| m.pinned() >> s & 1 == 1).collect();
                let from = if !pinned.is_empty() && rng.chance(2, 3) { *rng.pick(&pinned) } else if own.is_empty() { 0 } else { *rng.pick(&own) };
                let (f, r) = (file_of(from), rank_of(from));
                let d = [(0i8, 1i8), (1, 1), (1, 0), (1, -1), (0, -1), (-1, -1), (-1, 0), (-1, 1), (1, 2), (2, 1), (-1, 2), (-2, -1)][rng.below(12) as usize];
                let n = 1 + rng.below(3) as i8;
                let to = mk(f + d.0 * n, r + d.1 * n).unwrap_or(from);
                MMove { from, to, promo: 0 }
            }
            10 => {
                // pawn shapes: pushes onto the last rank without / with odd promotion, double pushes from anywhere
                let pawns: Vec<u8> = own.iter().copied().filter(|&s| m.sq[s as usize] == Some((PAWN, us))).collect();
                if pawns.is_empty() {
                    return any(rng);
                }
                let from = *rng.pick(&pawns);
                let dir = if us == WHITE { 1 } else { -1 };
                let steps = 1 + rng.below(2) as i8;
                let df = [0i8, 0, 1, -1][rng.below(4) as usize];
                let to = mk(file_of(from) + df, rank_of(from) + dir * steps).unwrap_or(from);
                MMove { from, to, promo: [0u8, 0, 1, 5, 6, 2][rng.below(6) as usize] }
            }
            _ => {
                // a legal move after all (requests must also succeed when they should)
                if w.legal.is_empty() {
                    any(rng)
                } else {
                    *rng.pick(&w.legal)
                }
            }
        }
    }

    fn gen_fork(&mut self, w: &World) -> Option<Op> {
        let m = &w.model;
        if w.legal.is_empty() {
            return None;
        }
        for attempt in 0..10 {
            let a = *self.rng.pick(&w.legal);
            let mut m1 = m.clone();
            m1.make(a);
            let l1 = m1.legal_moves();
            if l1.is_empty() {
                continue;
            }
            let b = *self.rng.pick(&l1);
            let mut m2 = m1.clone();
            m2.make(b);
            let l2 = m2.legal_moves();
            if l2.is_empty() {
                continue;
            }
            if attempt % 3 == 2 {
                // shuffle: a, b, a^-1, b^-1 against the empty sequence
                let ai = MMove { from: a.to, to: a.from, promo: 0 };
                let bi = MMove { from: b.to, to: b.from, promo: 0 };
                if m.is_castle(a) || m1.is_castle(b) || !l2.contains(&ai) {
                    continue;
                }
                let mut m3 = m2.clone();
                m3.make(ai);
                if !m3.legal_moves().contains(&bi) {
                    continue;
                }
                m3.make(bi);
                if m3.same_core(m) {
                    return Some(Op::Fork(vec![a, b, ai, bi], vec![]));
                }
                continue;
            }
            let c = *self.rng.pick(&l2);
            let mut m3 = m2.clone();
            m3.make(c);
            let l3 = m3.legal_moves();
            if l3.is_empty() {
                continue;
            }
            let d = *self.rng.pick(&l3);
            m3.make(d);
            // other order: c, b, a, d  or  a, d, c, b
            for alt in [[c, b, a, d], [a, d, c, b], [c, d, a, b]] {
                if alt == [a, b, c, d] {
                    continue;
                }
                let mut x = m.clone();
                let mut ok = true;
                for mv in alt {
                    if !x.legal_moves().contains(&mv) {
                        ok = false;
                        break;
                    }
                    x.make(mv);
                }
                if ok && x.same_core(&m3) {
                    return Some(Op::Fork(vec![a, b, c, d], alt.to_vec()));
                }
            }
        }
        None
    }

    fn gen_mask(&mut self, w: &World) -> Op {
        let rng = &mut self.rng;
        let m = &w.model;
        let mask = match rng.below(7) {
            0 => rng.next(),
            1 => rng.next() & rng.next(),
            2 => 1u64 << rng.below(64),
            3 => rng.next() | rng.next(),
            4 => !(1u64 << rng.below(64)),
            5 => {
                // exactly the origin of one legal move (or its complement)
                if w.legal.is_empty() {
                    0
                } else {
                    let f = rng.pick(&w.legal).from;
                    if rng.chance(1, 2) { 1u64 << f } else { !(1u64 << f) }
                }
            }
            _ => {
                // the king and the EP capturers are the generators with their own mask handling
                let mut x = 0u64;
                if let Some(k) = m.king_sq(m.stm) {
                    x |= 1u64 << k;
                }
                if rng.chance(1, 2) { x } else { !x }
            }
        };
        let k = if rng.chance(2, 3) { Some(rng.below(20) as u8) } else { None };
        Op::Mask(mask, k)
    }

    fn gen_clock(&mut self, w: &World) -> Op {
        let rng = &mut self.rng;
        let h = match rng.below(8) {
            0 => Some(99),
            1 => Some(100),
            2 => Some(98),
            3 => Some(0),
            4 => Some(rng.below(101) as u8),
            _ => None,
        };
        let n = match rng.below(8) {
            0 => Some(65535),
            1 => Some(65534),
            2 => Some(1),
            3 => Some(1 + rng.below(65535) as u16),
            _ => None,
        };
        if rng.chance(1, 3) {
            Op::RestartEdited(h.unwrap_or(w.model.half), n.unwrap_or(w.model.full))
        } else if h.is_none() && n.is_none() {
            Op::Clock(Some(99), None)
        } else {
            Op::Clock(h, n)
        }
    }

    /// The property-specific fault / probe operation.
    fn gen_special(&mut self, w: &World) -> Option<Op> {
        let s = self.rng.next();
        Some(match self.prop {
            Prop::C06 => match self.rng.below(4) {
                0 => Op::TextCatalogue(None),
                1 => Op::BuilderCatalogue(None),
                2 => Op::ByteFaults(s),
                _ => Op::OfferSynth(s),
            },
            Prop::C08 => {
                if self.rng.chance(2, 3) {
                    Op::TextCatalogue(None)
                } else {
                    Op::ByteFaults(s)
                }
            }
            Prop::C09 => {
                if self.rng.chance(1, 2) {
                    Op::BuilderCatalogue(None)
                } else {
                    Op::OfferSynth(s)
                }
            }
            Prop::C13 => Op::SamePos,
            Prop::C15 => {
                if (!self.swept && self.rng.chance(1, 3)) || self.rng.chance(1, 120) {
                    self.swept = true;
                    Op::Sweep
                } else {
                    let mv = self.near_illegal(w);
                    Op::Request(mv, if self.rng.chance(1, 2) { Via::TryPlay } else { Via::Play })
                }
            }
            Prop::C16 => self.gen_mask(w),
            Prop::C20 => Op::SanFuzz(s),
            Prop::C10 | Prop::C03 | Prop::C07 => {
                if self.rng.chance(1, 2) {
                    return self.gen_fork(w);
                } else {
                    Op::Restart(pick_route(&mut self.rng, &w.model))
                }
            }
            Prop::C12 | Prop::C02 => self.gen_clock(w),
            Prop::C14 => Op::Null,
            Prop::C01 | Prop::C04 => Op::Restart(pick_route(&mut self.rng, &w.model)),
        })
    }

    /// Next operation, or None when the run is over.
    pub fn next(&mut self, w: &World) -> Option<Op> {
        if !self.prefix.is_empty() {
            let mv = self.prefix.remove(0);
            if w.legal.contains(&mv) {
                self.last_delicate = true;
                return Some(Op::Play(mv, [Via::Play, Via::TryPlay, Via::Unchecked][self.rng.below(3) as usize]));
            }
            self.prefix.clear();
        }
        if self.produced >= self.swarm.len {
            return None;
        }
        self.produced += 1;
        let sw = self.swarm.clone();
        // faults biased to land right after a delicate event
        if self.last_delicate && self.rng.below(1000) < sw.after_event_fault as u64 {
            self.last_delicate = false;
            let op = match self.rng.below(5) {
                0 => Some(Op::Restart(pick_route(&mut self.rng, &w.model))),
                1 => {
                    let mv = self.near_illegal(w);
                    Some(Op::Request(mv, if self.rng.chance(1, 2) { Via::TryPlay } else { Via::Play }))
                }
                2 => Some(Op::Null),
                _ => self.gen_special(w),
            };
            if let Some(op) = op {
                return Some(op);
            }
        }
        let total = sw.w_play + sw.w_null + sw.w_restart + sw.w_clock + sw.w_request + sw.w_fork + sw.w_special;
        let mut r = self.rng.below(total as u64) as u32;
        let mut pick = 0;
        for (i, wt) in [sw.w_play, sw.w_null, sw.w_restart, sw.w_clock, sw.w_request, sw.w_fork, sw.w_special].iter().enumerate() {
            if r < *wt {
                pick = i;
                break;
            }
            r -= wt;
        }
        let op = match pick {
            1 => Some(Op::Null),
            2 => Some(Op::Restart(pick_route(&mut self.rng, &w.model))),
            3 => Some(self.gen_clock(w)),
            4 => {
                let mv = self.near_illegal(w);
                Some(Op::Request(mv, if self.rng.chance(1, 2) { Via::TryPlay } else { Via::Play }))
            }
            5 => self.gen_fork(w),
            6 => self.gen_special(w),
            _ => None,
        };
        if let Some(op) = op {
            return Some(op);
        }
        // ordinary operation: a legal move
        match self.choose_move(w) {
            Some(mv) => {
                let m = &w.model;
                let (k, _) = m.sq[mv.from as usize].unwrap();
                self.last_delicate = m.is_castle(mv)
                    || mv.promo != 0
                    || m.is_capture(mv)
                    || (k == PAWN && (rank_of(mv.to) - rank_of(mv.from)).abs() == 2);
                let via = [Via::Play, Via::TryPlay, Via::Unchecked][self.rng.below(3) as usize];
                Some(Op::Play(mv, via))
            }
            None => {
                // game over: the remaining budget goes to faults on the final position
                if sw.fault_free {
                    None
                } else {
                    self.gen_special(w).or(Some(Op::Restart(Route::Sfen)))
                }
            }
        }
    }
}
