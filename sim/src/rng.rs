//! The one source of randomness of the simulator: xoshiro256** seeded through splitmix64.
//! Own code, so no dependency upgrade can change a stream.

#[derive(Clone, Debug)]
pub struct Rng {
    s: [u64; 4],
}

pub fn splitmix(x: &mut u64) -> u64 {
    *x = x.wrapping_add(0x9E37_79B9_7F4A_7C15);
    let mut z = *x;
    z = (z ^ (z >> 30)).wrapping_mul(0xBF58_476D_1CE4_E5B9);
    z = (z ^ (z >> 27)).wrapping_mul(0x94D0_49BB_1331_11EB);
    z ^ (z >> 31)
}

/// Mix several integers into one seed (order-sensitive).
pub fn mix(parts: &[u64]) -> u64 {
    let mut h: u64 = 0x6A09_E667_F3BC_C908;
    for &p in parts {
        let mut x = h ^ p.wrapping_mul(0x9E37_79B9_7F4A_7C15);
        h = splitmix(&mut x).rotate_left(23) ^ p;
    }
    let mut x = h;
    splitmix(&mut x)
}

impl Rng {
    pub fn new(seed: u64) -> Self {
        let mut x = seed;
        let s = [splitmix(&mut x), splitmix(&mut x), splitmix(&mut x), splitmix(&mut x)];
        Rng { s }
    }

    pub fn next(&mut self) -> u64 {
        let r = self.s[1].wrapping_mul(5).rotate_left(7).wrapping_mul(9);
        let t = self.s[1] << 17;
        self.s[2] ^= self.s[0];
        self.s[3] ^= self.s[1];
        self.s[1] ^= self.s[2];
        self.s[0] ^= self.s[3];
        self.s[2] ^= t;
        self.s[3] = self.s[3].rotate_left(45);
        r
    }

    /// Uniform in 0..n (n > 0). Modulo bias is irrelevant here (n is tiny).
    pub fn below(&mut self, n: u64) -> u64 {
        debug_assert!(n > 0);
        self.next() % n
    }

    pub fn chance(&mut self, num: u64, den: u64) -> bool {
        self.below(den) < num
    }

    pub fn pick<'a, T>(&mut self, v: &'a [T]) -> &'a T {
        &v[self.below(v.len() as u64) as usize]
    }
}
