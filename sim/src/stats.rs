//! Per-worker statistics: fault counters, reach probes, distinct-state accounting, samples.

use std::collections::{BTreeMap, HashSet};

#[derive(Default, Clone, Debug)]
pub struct Stats {
    pub runs: u64,
    pub steps: u64,
    pub plies: u64,
    pub oracle_evals: u64,
    pub counters: BTreeMap<String, u64>,
    /// keys of states at which this property's oracle was evaluated (non-boot states)
    pub pending_keys: Vec<u64>,
    pub foreign_aborts: u64,
    pub boot_rejected: u64,
    pub known_matched: BTreeMap<String, u64>,
    pub digest: u64,
}

impl Stats {
    pub fn new() -> Stats {
        Stats { digest: 0xcbf2_9ce4_8422_2325, ..Default::default() }
    }

    #[inline]
    pub fn hit(&mut self, name: &str) {
        self.add(name, 1);
    }

    pub fn add(&mut self, name: &str, n: u64) {
        if let Some(c) = self.counters.get_mut(name) {
            *c += n;
        } else {
            self.counters.insert(name.to_string(), n);
        }
    }

    #[inline]
    pub fn eat(&mut self, x: u64) {
        // FNV-1a over 8 bytes: the event-log digest used by the determinism proof
        let mut h = self.digest;
        for i in 0..8 {
            h ^= (x >> (i * 8)) & 0xff;
            h = h.wrapping_mul(0x0000_0100_0000_01B3);
        }
        self.digest = h;
    }

    pub fn eat_str(&mut self, s: &str) {
        let mut h = self.digest;
        for b in s.bytes() {
            h ^= b as u64;
            h = h.wrapping_mul(0x0000_0100_0000_01B3);
        }
        self.digest = h;
    }

    pub fn merge(&mut self, o: &Stats) {
        self.runs += o.runs;
        self.steps += o.steps;
        self.plies += o.plies;
        self.oracle_evals += o.oracle_evals;
        self.foreign_aborts += o.foreign_aborts;
        self.boot_rejected += o.boot_rejected;
        for (k, v) in &o.counters {
            *self.counters.entry(k.clone()).or_default() += v;
        }
        for (k, v) in &o.known_matched {
            *self.known_matched.entry(k.clone()).or_default() += v;
        }
    }
}

/// Exact distinct-state set, sharded so 16 workers can insert without contention.
pub struct Distinct {
    shards: Vec<std::sync::Mutex<HashSet<u64>>>,
    cap_per_shard: usize,
    pub capped: std::sync::atomic::AtomicBool,
}

impl Distinct {
    pub fn new(cap_total: usize) -> Distinct {
        let n = 256;
        Distinct {
            shards: (0..n).map(|_| std::sync::Mutex::new(HashSet::new())).collect(),
            cap_per_shard: cap_total / n,
            capped: std::sync::atomic::AtomicBool::new(false),
        }
    }

    pub fn insert_all(&self, keys: &mut Vec<u64>) {
        keys.sort_unstable();
        keys.dedup();
        let n = self.shards.len() as u64;
        let mut i = 0;
        while i < keys.len() {
            let shard = (keys[i] >> 40) % n;
            let mut g = self.shards[shard as usize].lock().unwrap();
            while i < keys.len() && (keys[i] >> 40) % n == shard {
                if g.len() < self.cap_per_shard {
                    g.insert(keys[i]);
                } else {
                    self.capped.store(true, std::sync::atomic::Ordering::Relaxed);
                }
                i += 1;
            }
        }
        keys.clear();
    }

    pub fn len(&self) -> usize {
        self.shards.iter().map(|s| s.lock().unwrap().len()).sum()
    }
}
