//! C20: SAN / UCI helpers against the model's independent writers, and the SAN reader under
//! damaged input.

use crate::exec::*;
use crate::model::*;
use crate::real::*;
use crate::rng::Rng;
use cozy_chess::util::*;

pub fn observe_c20(w: &World, cx: &mut Ctx) -> R {
    let m = &w.model;
    let at = m.to_fen(true);
    let orthodox = m.orthodox();
    if orthodox {
        cx.hit("uci_orthodox_states");
    }
    for &mv in &w.legal {
        let rm = to_real(mv);
        let want = m.san(mv, &w.legal);
        cx.hit("san_moves_written");
        let got = match guard(|| format!("{}", display_san_move(&w.real, rm))) {
            Ok(s) => s,
            Err(()) => {
                cx.fail("C20/panic/san-writer".into(), format!("{} at {}", mv.text(), at))?;
                continue;
            }
        };
        if got != want {
            // classify by what differs
            let strip = |s: &str| s.trim_end_matches(|c| c == '+' || c == '#').to_string();
            let class = if strip(&got) == strip(&want) {
                "suffix"
            } else if m.is_castle(mv) {
                "castling"
            } else if got.replace('x', "") == want.replace('x', "") {
                "capture-mark"
            } else if mv.promo != 0 && got.split('=').next() == want.split('=').next() {
                "promotion"
            } else {
                "disambiguation"
            };
            cx.fail(format!("C20/san-writer/{}", class), format!("{} at {}: got {:?} canonical {:?}", mv.text(), at, got, want))?;
        }
        if want.ends_with('#') {
            cx.hit("probe_san_mate_suffix");
        }
        let core_len = want.trim_end_matches(|c| c == '+' || c == '#').len();
        if !want.starts_with('O') && want.chars().next().unwrap().is_ascii_uppercase() && mv.promo == 0 {
            let extra = core_len - 3 - want.contains('x') as usize;
            cx.hit(["probe_san_no_disambiguation", "probe_san_one_char_disambiguation", "probe_san_full_square_disambiguation"][extra.min(2)]);
            if extra == 1 && want.as_bytes()[1].is_ascii_digit() {
                cx.hit("probe_san_rank_disambiguation");
            }
        }
        match guard(|| parse_san_move(&w.real, &want)) {
            Ok(Ok(x)) if x == rm => {}
            Ok(Ok(x)) => cx.fail("C20/san-reader/wrong-move".into(), format!("{:?} read as {} instead of {} at {}", want, x, mv.text(), at))?,
            Ok(Err(_)) => cx.fail("C20/san-reader/canonical-rejected".into(), format!("{:?} ({}) at {}", want, mv.text(), at))?,
            Err(()) => cx.fail("C20/panic/san-reader".into(), format!("{:?} at {}", want, at))?,
        }
        if orthodox {
            cx.hit("uci_moves_written");
            let wantu = m.uci(mv);
            match guard(|| format!("{}", display_uci_move(&w.real, rm))) {
                Ok(gotu) => {
                    if gotu != wantu {
                        cx.fail(format!("C20/uci-writer/{}", if m.is_castle(mv) { "castling" } else { "plain" }), format!("{} at {}: got {:?} standard {:?}", mv.text(), at, gotu, wantu))?;
                    }
                }
                Err(()) => cx.fail("C20/panic/uci-writer".into(), format!("{} at {}", mv.text(), at))?,
            }
            match guard(|| parse_uci_move(&w.real, &wantu)) {
                Ok(Ok(x)) if x == rm => {}
                Ok(Ok(x)) => cx.fail(format!("C20/uci-reader/{}", if m.is_castle(mv) { "castling" } else { "plain" }), format!("{:?} read as {} instead of {} at {}", wantu, x, mv.text(), at))?,
                Ok(Err(_)) => cx.fail("C20/uci-reader/rejected".into(), format!("{:?} at {}", wantu, at))?,
                Err(()) => cx.fail("C20/panic/uci-reader".into(), format!("{:?} at {}", wantu, at))?,
            }
        }
    }
    Ok(())
}

/// Components written in a SAN text, for texts inside the core grammar
/// `[NBRQK]? [a-h]? [1-8]? x? [a-h][1-8] (=[NBRQ])? [+#]?` or `O-O(-O)? [+#]?`.
#[derive(Debug, PartialEq, Eq)]
pub enum SanText {
    Castle(bool), // short?
    Move { kind: u8, src_file: Option<u8>, src_rank: Option<u8>, dest: u8, promo: u8 },
}

pub fn san_components(text: &str) -> Option<SanText> {
    if !text.is_ascii() {
        return None;
    }
    let core = text.strip_suffix('+').or_else(|| text.strip_suffix('#')).unwrap_or(text);
    if core == "O-O" {
        return Some(SanText::Castle(true));
    }
    if core == "O-O-O" {
        return Some(SanText::Castle(false));
    }
    let b = core.as_bytes();
    let mut i = 0;
    let mut kind = PAWN;
    if i < b.len() {
        if let Some(k) = [b'N', b'B', b'R', b'Q', b'K'].iter().position(|&c| c == b[i]) {
            kind = k as u8 + 1;
            i += 1;
        }
    }
    // promotion suffix
    let mut end = b.len();
    let mut promo = 0u8;
    if end >= 2 && b[end - 2] == b'=' {
        let k = [b'N', b'B', b'R', b'Q'].iter().position(|&c| c == b[end - 1])?;
        promo = k as u8 + 2;
        end -= 2;
    }
    if end < i + 2 {
        return None;
    }
    let dest = parse_sq(std::str::from_utf8(&b[end - 2..end]).ok()?)?;
    let mut mid = &b[i..end - 2];
    if let Some((&b'x', rest)) = mid.split_last() {
        mid = rest;
    }
    let mut src_file = None;
    let mut src_rank = None;
    let mut j = 0;
    if j < mid.len() && (b'a'..=b'h').contains(&mid[j]) {
        src_file = Some(mid[j] - b'a');
        j += 1;
    }
    if j < mid.len() && (b'1'..=b'8').contains(&mid[j]) {
        src_rank = Some(mid[j] - b'1');
        j += 1;
    }
    if j != mid.len() {
        return None;
    }
    Some(SanText::Move { kind, src_file, src_rank, dest, promo })
}

/// Does the move match every component written? `lenient` additionally lets a castling move answer to
/// `K<own rook square>` (the library's king-takes-rook spelling) or `K<square the king lands on>`:
/// the statement does not forbid those readings, but they never compete with a proper match.
fn matches(m: &Model, mv: MMove, t: &SanText, lenient: bool) -> bool {
    match t {
        SanText::Castle(short) => m.is_castle(mv) && (file_of(mv.to) > file_of(mv.from)) == *short,
        SanText::Move { kind, src_file, src_rank, dest, promo } => {
            let dest_ok = if m.is_castle(mv) {
                let landing = (mv.from & 0x38) | if file_of(mv.to) > file_of(mv.from) { 6 } else { 2 };
                lenient && *kind == KING && (mv.to == *dest || landing == *dest)
            } else {
                mv.to == *dest
            };
            m.sq[mv.from as usize].map(|x| x.0) == Some(*kind)
                && dest_ok
                && mv.promo == *promo
                && src_file.map_or(true, |f| file_of(mv.from) as u8 == f)
                && src_rank.map_or(true, |r| rank_of(mv.from) as u8 == r)
        }
    }
}

fn check_read(w: &World, text: &str, cx: &mut Ctx) -> R {
    let m = &w.model;
    cx.hit("damaged_san_strings");
    match guard(|| parse_san_move(&w.real, text)) {
        Err(()) => cx.fail("C20/panic/san-reader".into(), format!("{:?} at {}", text, m.to_fen(true))),
        Ok(Err(_)) => Ok(()),
        Ok(Ok(x)) => {
            cx.hit("damaged_san_accepted");
            let xm = to_model(x);
            if !w.legal.contains(&xm) {
                return cx.fail("C20/san-reader/illegal-move".into(), format!("{:?} read as illegal {} at {}", text, x, m.to_fen(true)));
            }
            if let Some(t) = san_components(text) {
                if !matches(m, xm, &t, true) {
                    return cx.fail("C20/san-reader/component-mismatch".into(), format!("{:?} read as {} at {}", text, x, m.to_fen(true)));
                }
                let proper = w.legal.iter().filter(|o| matches(m, **o, &t, false)).count();
                if matches(m, xm, &t, false) {
                    if proper != 1 {
                        // a reader may let a written check / mate mark decide between the candidates (the mark is
                        // a component of the text; ignoring it, as the library does, is equally allowed)
                        let mark = text.chars().last().filter(|c| *c == '+' || *c == '#');
                        let agrees = |o: MMove| -> bool {
                            let mut a = m.clone();
                            a.make(o);
                            let check = a.in_check(a.stm);
                            match mark {
                                Some('#') => check && a.legal_moves().is_empty(),
                                Some('+') => check,
                                _ => false,
                            }
                        };
                        let by_mark = w.legal.iter().filter(|o| matches(m, **o, &t, false) && agrees(**o)).count();
                        if !(mark.is_some() && by_mark == 1 && agrees(xm)) {
                            return cx.fail("C20/san-reader/ambiguous-text-accepted".into(), format!("{:?} matches {} legal moves, read as {} at {}", text, proper, x, m.to_fen(true)));
                        }
                    }
                } else {
                    // a tolerated reading (castling for a K-text): only when nothing matches properly and
                    // exactly one castling move answers to it
                    let tolerated = w.legal.iter().filter(|o| matches(m, **o, &t, true)).count();
                    if proper != 0 || tolerated != 1 {
                        return cx.fail("C20/san-reader/ambiguous-text-accepted".into(), format!("{:?} read as castling {} although {} legal moves match it properly ({} in all) at {}", text, x, proper, tolerated, m.to_fen(true)));
                    }
                }
            }
            Ok(())
        }
    }
}

pub fn san_fuzz(w: &World, seed: u64, cx: &mut Ctx) -> R {
    let mut rng = Rng::new(seed);
    let m = &w.model;
    if w.legal.is_empty() {
        return Ok(());
    }
    let alphabet: Vec<char> = "abcdefgh12345678NBRQKPOx=+#-o0 é".chars().collect();
    let mut bases: Vec<String> = vec![];
    for _ in 0..8 {
        let mv = *rng.pick(&w.legal);
        bases.push(m.san(mv, &w.legal));
    }
    // SAN strings of another position (the successor after a random move)
    {
        let mv = *rng.pick(&w.legal);
        let mut n = m.clone();
        n.make(mv);
        let nl = n.legal_moves();
        for o in nl.iter().take(6) {
            let t = n.san(*o, &nl);
            check_read(w, &t, cx)?;
        }
    }
    // under-specified and over-specified forms of real moves
    let mut chosen: Vec<MMove> = w.legal.iter().copied().filter(|x| x.promo != 0).take(4).collect();
    for _ in 0..8 {
        chosen.push(*rng.pick(&w.legal));
    }
    for mv in chosen {
        if m.is_castle(mv) {
            continue;
        }
        let (k, _) = m.sq[mv.from as usize].unwrap();
        let pl = if k == PAWN { String::new() } else { KIND_UPPER[k as usize].to_string() };
        let promo = if mv.promo != 0 { format!("={}", KIND_UPPER[(mv.promo - 1) as usize]) } else { String::new() };
        let x = if m.is_capture(mv) { "x" } else { "" };
        if k == PAWN {
            // promotion pieces that can never be right, with and without '=' (on promoting and other pawn moves)
            for bad in ["=K", "=P", "K", "P", "=k", "=q"] {
                check_read(w, &format!("{}{}{}", if m.is_capture(mv) { format!("{}x", (b'a' + (mv.from & 7)) as char) } else { String::new() }, sq_name(mv.to), bad), cx)?;
            }
        }
        for t in [
            format!("{}{}{}{}", pl, x, sq_name(mv.to), promo),
            format!("{}{}{}{}{}", pl, sq_name(mv.from), x, sq_name(mv.to), promo),
            format!("{}{}{}{}{}", pl, (b'1' + (mv.from >> 3)) as char, x, sq_name(mv.to), promo),
            format!("{}{}{}{}{}", pl, (b'a' + (mv.from & 7)) as char, x, sq_name(mv.to), promo),
        ] {
            check_read(w, &t, cx)?;
        }
    }
    for base in bases {
        for _ in 0..6 {
            let mut cs: Vec<char> = base.chars().collect();
            match rng.below(4) {
                0 => {
                    if !cs.is_empty() {
                        let i = rng.below(cs.len() as u64) as usize;
                        cs.remove(i);
                    }
                }
                1 => {
                    let i = rng.below(cs.len() as u64 + 1) as usize;
                    cs.insert(i, *rng.pick(&alphabet));
                }
                2 => {
                    if !cs.is_empty() {
                        let i = rng.below(cs.len() as u64) as usize;
                        cs[i] = *rng.pick(&alphabet);
                    }
                }
                _ => {
                    if cs.len() > 1 {
                        let i = rng.below(cs.len() as u64 - 1) as usize;
                        cs.swap(i, i + 1);
                    }
                }
            }
            let text: String = cs.into_iter().collect();
            check_read(w, &text, cx)?;
        }
    }
    for t in ["O-O", "O-O-O", "O-O+", "O-O-O#", "", "+", "#", "x", "=", "O", "O-", "O-O-", "O-O-O-O", "é", "🙂e4", "e4🙂", "\u{0}", "e9", "i4", "Ke", "=Q", "e8=", "e8=K", "e1=Q"] {
        check_read(w, t, cx)?;
    }
    Ok(())
}
