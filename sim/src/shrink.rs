//! Minimisation before reporting: the same violation *class* must persist at every step.

use crate::exec::*;
use crate::model::*;
use crate::ops::*;
use crate::real::adopt;
use crate::stats::Stats;
use cozy_chess::Board;

/// Run a trace for `prop`; Some(violation) if it violates.
pub fn try_trace(prop: Prop, known: &[String], t: &Trace) -> Option<Violation> {
    let mut stats = Stats::new();
    let mut cx = Ctx { prop, known, stats: &mut stats, step: 0 };
    match run_trace(t, &mut cx) {
        Err(Stop::Violation(v)) => Some(v),
        _ => None,
    }
}

/// The model state after boot + ops[..k] (model only; None if not applicable).
fn model_after(t: &Trace, k: usize) -> Option<Model> {
    let mut m = match &t.boot {
        Boot::Start(w, b) => {
            if *w >= 960 || *b >= 960 {
                return None;
            }
            adopt(&Board::double_chess960_startpos(*w, *b))
        }
        Boot::Text(s, _) => decode(s, false)?.0,
    };
    for op in &t.ops[..k] {
        match op {
            Op::Play(mv, _) => {
                if !m.legal_moves().contains(mv) {
                    return None;
                }
                m.make(*mv);
            }
            Op::Request(mv, _) => {
                if m.legal_moves().contains(mv) {
                    m.make(*mv);
                }
            }
            Op::Null => {
                if let Some(n) = m.null() {
                    m = n;
                }
            }
            Op::Clock(h, n) => {
                if let Some(h) = h {
                    m.half = *h;
                }
                if let Some(n) = n {
                    m.full = *n;
                }
            }
            Op::RestartEdited(h, n) => {
                m.half = *h;
                m.full = *n;
            }
            Op::Fork(a, _) => {
                for mv in a {
                    if !m.legal_moves().contains(mv) {
                        return None;
                    }
                    m.make(*mv);
                }
            }
            _ => {}
        }
    }
    Some(m)
}

pub fn shrink(prop: Prop, known: &[String], t: &Trace, v: &Violation) -> (Trace, Violation, usize) {
    let class = v.class.clone();
    let mut tests = 0usize;
    let budget = 4000usize;
    let mut best = t.clone();
    let mut best_v = v.clone();
    let accept = |cand: &Trace, tests: &mut usize| -> Option<Violation> {
        if *tests >= budget {
            return None;
        }
        *tests += 1;
        match try_trace(prop, known, cand) {
            Some(v2) if v2.class == class => Some(v2),
            _ => None,
        }
    };
    // 1. truncate after the failing step
    if best_v.step < best.ops.len() {
        let mut cand = best.clone();
        cand.ops.truncate(best_v.step);
        if let Some(v2) = accept(&cand, &mut tests) {
            best = cand;
            best_v = v2;
        }
    }
    let mut progress = true;
    while progress && tests < budget {
        progress = false;
        // 2. ddmin over the operation list
        let mut chunk = (best.ops.len() / 2).max(1);
        loop {
            let mut i = 0;
            while i < best.ops.len() {
                let mut cand = best.clone();
                let end = (i + chunk).min(cand.ops.len());
                cand.ops.drain(i..end);
                if let Some(v2) = accept(&cand, &mut tests) {
                    best = cand;
                    best_v = v2;
                    progress = true;
                    // truncate again if the failure moved earlier
                    if best_v.step < best.ops.len() {
                        let mut c2 = best.clone();
                        c2.ops.truncate(best_v.step);
                        if let Some(v3) = accept(&c2, &mut tests) {
                            best = c2;
                            best_v = v3;
                        }
                    }
                } else {
                    i += chunk;
                }
            }
            if chunk == 1 {
                break;
            }
            chunk = (chunk / 2).max(1);
        }
        // 3. re-root: replace the longest possible prefix by a restart from the model's record
        let n = best.ops.len();
        for k in (1..=n).rev() {
            if let Some(m) = model_after(&best, k) {
                if m.count(KING, 0) != 1 || m.count(KING, 1) != 1 {
                    continue;
                }
                let cand = Trace { boot: Boot::Text(m.to_fen(true), Route::Sfen), ops: best.ops[k..].to_vec() };
                if let Some(v2) = accept(&cand, &mut tests) {
                    best = cand;
                    best_v = v2;
                    progress = true;
                    break;
                }
            }
        }
        // a Start boot as text (so pieces can be dropped)
        if let Boot::Start(..) = best.boot {
            if let Some(m) = model_after(&best, 0) {
                let cand = Trace { boot: Boot::Text(m.to_fen(true), Route::Sfen), ops: best.ops.clone() };
                if let Some(v2) = accept(&cand, &mut tests) {
                    best = cand;
                    best_v = v2;
                    progress = true;
                }
            }
        }
        // 4. drop non-king pieces, rights, EP flag, clocks from the boot record
        if let Boot::Text(s, route) = best.boot.clone() {
            if let Some((m0, _)) = decode(&s, false) {
                let mut m = m0.clone();
                for sq in 0..64usize {
                    if matches!(m.sq[sq], Some((k, _)) if k != KING) {
                        let mut c = m.clone();
                        c.sq[sq] = None;
                        if c.unsound().is_some() {
                            continue;
                        }
                        let cand = Trace { boot: Boot::Text(c.to_fen(true), route), ops: best.ops.clone() };
                        if let Some(v2) = accept(&cand, &mut tests) {
                            m = c;
                            best = cand;
                            best_v = v2;
                            progress = true;
                        }
                    }
                }
                let mut simpler: Vec<Model> = vec![];
                for c in 0..2 {
                    for w in 0..2 {
                        if m.rights[c][w].is_some() {
                            let mut x = m.clone();
                            x.rights[c][w] = None;
                            simpler.push(x);
                        }
                    }
                }
                if m.ep.is_some() {
                    let mut x = m.clone();
                    x.ep = None;
                    simpler.push(x);
                }
                if m.half != 0 || m.full != 1 {
                    let mut x = m.clone();
                    x.half = 0;
                    x.full = 1;
                    simpler.push(x);
                }
                for x in simpler {
                    // apply on top of what has been accepted so far
                    let mut y = match &best.boot {
                        Boot::Text(s, _) => decode(s, false).map(|d| d.0).unwrap_or(m.clone()),
                        _ => m.clone(),
                    };
                    if x.rights != m.rights {
                        y.rights = x.rights;
                    }
                    if x.ep != m.ep {
                        y.ep = x.ep;
                    }
                    if x.half != m.half || x.full != m.full {
                        y.half = x.half;
                        y.full = x.full;
                    }
                    if y.unsound().is_some() {
                        continue;
                    }
                    let cand = Trace { boot: Boot::Text(y.to_fen(true), route), ops: best.ops.clone() };
                    if let Some(v2) = accept(&cand, &mut tests) {
                        best = cand;
                        best_v = v2;
                        progress = true;
                    }
                }
            }
        }
    }
    // 5. narrow a whole-catalogue op to the single failing operator
    for i in 0..best.ops.len() {
        let range: Vec<u16> = (0..400u16).chain(1000..1400u16).collect();
        match best.ops[i] {
            Op::TextCatalogue(None) => {
                for j in &range {
                    let mut cand = best.clone();
                    cand.ops[i] = Op::TextCatalogue(Some(*j));
                    if let Some(v2) = accept(&cand, &mut tests) {
                        best = cand;
                        best_v = v2;
                        break;
                    }
                }
            }
            Op::BuilderCatalogue(None) => {
                for j in 0..64u16 {
                    let mut cand = best.clone();
                    cand.ops[i] = Op::BuilderCatalogue(Some(j));
                    if let Some(v2) = accept(&cand, &mut tests) {
                        best = cand;
                        best_v = v2;
                        break;
                    }
                }
            }
            _ => {}
        }
    }
    (best, best_v, tests)
}
