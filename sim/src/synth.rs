//! Boot-state generator for "unreachable but accepted" positions. This part is plain seeded
//! generation (labelled as such in DESIGN.md §4.5 and in the evidence): random placements
//! with directed themes, filtered by the *model's* soundness predicate, never by the library.

use crate::model::*;
use crate::rng::Rng;

pub const THEMES: &[&str] = &["random", "multicheck", "ep", "castle", "material", "sparse", "cornered"];

fn put(m: &mut Model, s: u8, k: u8, c: u8) -> bool {
    if m.sq[s as usize].is_some() {
        return false;
    }
    if k == PAWN && (rank_of(s) == 0 || rank_of(s) == 7) {
        return false;
    }
    m.sq[s as usize] = Some((k, c));
    true
}

fn random_piece(rng: &mut Rng) -> u8 {
    [PAWN, PAWN, KNIGHT, BISHOP, ROOK, QUEEN][rng.below(6) as usize]
}

fn scatter(m: &mut Model, rng: &mut Rng, n: u64) {
    for _ in 0..n {
        let s = rng.below(64) as u8;
        let mut k = random_piece(rng);
        let mut c = rng.below(2) as u8;
        // bias rooks to their own back rank (castling geometry)
        if (rank_of(s) == 0 || rank_of(s) == 7) && rng.chance(1, 2) {
            k = ROOK;
            c = if rank_of(s) == 0 { WHITE } else { BLACK };
        }
        if m.count_side(c) >= 16 || (k == PAWN && m.count(PAWN, c) >= 8) {
            continue;
        }
        put(m, s, k, c);
    }
}

fn add_rights(m: &mut Model, rng: &mut Rng) {
    for c in 0..2u8 {
        let back = if c == WHITE { 0 } else { 7 };
        let Some(k) = m.king_sq(c) else { continue };
        if rank_of(k) != back {
            continue;
        }
        for f in 0..8i8 {
            let s = mk(f, back).unwrap();
            if m.sq[s as usize] == Some((ROOK, c)) && rng.chance(2, 3) {
                if f > file_of(k) {
                    m.rights[c as usize][0] = Some(f as u8);
                } else {
                    m.rights[c as usize][1] = Some(f as u8);
                }
            }
        }
    }
}

/// Force an en-passant situation on file `f` for the side to move (victim pawn of the enemy,
/// origin and passed squares cleared), optionally with capturers beside it.
fn add_ep(m: &mut Model, rng: &mut Rng) -> bool {
    let f = rng.below(8) as i8;
    let stm = m.stm;
    let (pawn_r, passed_r, origin_r) = if stm == WHITE { (4, 5, 6) } else { (3, 2, 1) };
    for r in [pawn_r, passed_r, origin_r] {
        if matches!(m.sq[mk(f, r).unwrap() as usize], Some((KING, _))) {
            return false;
        }
    }
    m.sq[mk(f, pawn_r).unwrap() as usize] = Some((PAWN, stm ^ 1));
    m.sq[mk(f, passed_r).unwrap() as usize] = None;
    m.sq[mk(f, origin_r).unwrap() as usize] = None;
    m.ep = Some(f as u8);
    // what stands beside the pushed pawn: a capturer pawn, a non-pawn of the mover (C13's
    // delicate case), or nothing
    for df in [-1i8, 1] {
        if let Some(s) = mk(f + df, pawn_r) {
            if matches!(m.sq[s as usize], Some((KING, _))) {
                continue;
            }
            match rng.below(5) {
                0 | 1 => m.sq[s as usize] = Some((PAWN, stm)),
                2 => m.sq[s as usize] = Some(([KNIGHT, BISHOP, ROOK, QUEEN][rng.below(4) as usize], stm)),
                _ => {}
            }
        }
    }
    true
}

/// One attempt; None when the attempt produced nothing usable (caller retries).
fn attempt(rng: &mut Rng, theme: usize) -> Option<Model> {
    let mut m = Model::empty();
    m.stm = rng.below(2) as u8;
    // kings
    let back_kings = matches!(theme, 3) || rng.chance(1, 2);
    let (wk, bk) = if back_kings {
        (rng.below(8) as u8, 56 + rng.below(8) as u8)
    } else {
        (rng.below(64) as u8, rng.below(64) as u8)
    };
    if wk == bk {
        return None;
    }
    m.sq[wk as usize] = Some((KING, WHITE));
    m.sq[bk as usize] = Some((KING, BLACK));
    match theme {
        1 => {
            // k-fold check on the mover's king, k = 1..4
            { let n = rng.below(8); scatter(&mut m, rng, n); }
            let us = m.stm;
            let k = m.king_sq(us).unwrap();
            let want = 1 + rng.below(4);
            let mut placed = 0;
            let mut tries = 0;
            while placed < want && tries < 40 {
                tries += 1;
                let (f, r) = (file_of(k), rank_of(k));
                match rng.below(4) {
                    0 => {
                        let d = [(1i8, 2i8), (2, 1), (2, -1), (1, -2), (-1, -2), (-2, -1), (-2, 1), (-1, 2)]
                            [rng.below(8) as usize];
                        if let Some(s) = mk(f + d.0, r + d.1) {
                            if put(&mut m, s, KNIGHT, us ^ 1) {
                                placed += 1;
                            }
                        }
                    }
                    1 => {
                        let dir = if us == WHITE { 1 } else { -1 };
                        let df = if rng.chance(1, 2) { 1 } else { -1 };
                        if let Some(s) = mk(f + df, r + dir) {
                            if put(&mut m, s, PAWN, us ^ 1) {
                                placed += 1;
                            }
                        }
                    }
                    _ => {
                        let d = [(0i8, 1i8), (1, 0), (0, -1), (-1, 0), (1, 1), (1, -1), (-1, -1), (-1, 1)]
                            [rng.below(8) as usize];
                        let dist = 1 + rng.below(7) as i8;
                        let mut ok = true;
                        for i in 1..dist {
                            match mk(f + d.0 * i, r + d.1 * i) {
                                Some(s) if m.sq[s as usize].is_none() => {}
                                _ => {
                                    ok = false;
                                    break;
                                }
                            }
                        }
                        if !ok {
                            continue;
                        }
                        if let Some(s) = mk(f + d.0 * dist, r + d.1 * dist) {
                            let straight = d.0 == 0 || d.1 == 0;
                            let kind = if rng.chance(1, 3) {
                                QUEEN
                            } else if straight {
                                ROOK
                            } else {
                                BISHOP
                            };
                            if put(&mut m, s, kind, us ^ 1) {
                                placed += 1;
                            }
                        }
                    }
                }
            }
        }
        2 => {
            { let n = rng.below(10); scatter(&mut m, rng, n); }
            if !add_ep(&mut m, rng) {
                return None;
            }
            // sliders that make the EP delicate: on the pawns' rank, or on lines through the king
            let us = m.stm;
            let pawn_r = if us == WHITE { 4 } else { 3 };
            if rng.chance(1, 4) {
                // our king on a diagonal through the pushed pawn with an enemy bishop/queen beyond it
                // (the capture removes the pawn and opens the diagonal; unreachable but accepted)
                let f = m.ep.unwrap() as i8;
                let d = [(1i8, 1i8), (1, -1), (-1, 1), (-1, -1)][rng.below(4) as usize];
                let n1 = 1 + rng.below(3) as i8;
                let n2 = 1 + rng.below(3) as i8;
                if let (Some(ks), Some(bs)) = (mk(f + d.0 * n1, pawn_r + d.1 * n1), mk(f - d.0 * n2, pawn_r - d.1 * n2)) {
                    let old = m.king_sq(us).unwrap();
                    if m.sq[ks as usize].is_none() && m.sq[bs as usize].is_none() {
                        m.sq[old as usize] = None;
                        m.sq[ks as usize] = Some((KING, us));
                        m.sq[bs as usize] = Some((if rng.chance(1, 2) { BISHOP } else { QUEEN }, us ^ 1));
                    }
                }
            } else if rng.chance(1, 2) {
                // put our king on that rank with an enemy rook/queen on the other side
                let old = m.king_sq(us).unwrap();
                let kf = rng.below(8) as i8;
                let ks = mk(kf, pawn_r).unwrap();
                if m.sq[ks as usize].is_none() {
                    m.sq[old as usize] = None;
                    m.sq[ks as usize] = Some((KING, us));
                    let rf = rng.below(8) as i8;
                    if let Some(s) = mk(rf, pawn_r) {
                        put(&mut m, s, if rng.chance(1, 2) { ROOK } else { QUEEN }, us ^ 1);
                    }
                }
            } else {
                for _ in 0..rng.below(3) {
                    let s = rng.below(64) as u8;
                    put(&mut m, s, [BISHOP, ROOK, QUEEN][rng.below(3) as usize], us ^ 1);
                }
            }
        }
        3 => {
            // castling geometry: rooks on both back ranks, attackers aimed at the back ranks
            for c in 0..2u8 {
                let back = if c == WHITE { 0 } else { 7 };
                for _ in 0..(1 + rng.below(3)) {
                    let s = mk(rng.below(8) as i8, back).unwrap();
                    put(&mut m, s, ROOK, c);
                }
            }
            add_rights(&mut m, rng);
            for _ in 0..rng.below(6) {
                let s = rng.below(64) as u8;
                let c = rng.below(2) as u8;
                let k = [KNIGHT, BISHOP, ROOK, QUEEN, PAWN, BISHOP][rng.below(6) as usize];
                put(&mut m, s, k, c);
            }
            // the other side's king right next to a castling rook (king takes the rook that carries a right)
            if rng.chance(1, 3) {
                let c = rng.below(2) as u8;
                let back = if c == WHITE { 0 } else { 7 };
                let rooks: Vec<u8> = (0..8).filter_map(|f| mk(f, back)).filter(|&q| m.sq[q as usize] == Some((ROOK, c)) && m.rights[c as usize].iter().any(|r| *r == Some(file_of(q) as u8))).collect();
                if !rooks.is_empty() {
                    let rq = *rng.pick(&rooks);
                    let d = [(1i8, 0i8), (-1, 0), (0, 1), (0, -1), (1, 1), (-1, 1), (1, -1), (-1, -1)][rng.below(8) as usize];
                    if let Some(ks) = mk(file_of(rq) + d.0, rank_of(rq) + d.1) {
                        if m.sq[ks as usize].is_none() {
                            let old = m.king_sq(c ^ 1).unwrap();
                            m.sq[old as usize] = None;
                            m.rights[(c ^ 1) as usize] = [None, None];
                            m.sq[ks as usize] = Some((KING, c ^ 1));
                        }
                    }
                }
            }
            // an enemy slider on the back rank itself (the "rook shields the king" case)
            if rng.chance(1, 2) {
                let c = rng.below(2) as u8;
                let back = if c == WHITE { 0 } else { 7 };
                let s = mk(if rng.chance(1, 2) { 7 } else { 0 }, back).unwrap();
                put(&mut m, s, if rng.chance(1, 2) { ROOK } else { QUEEN }, c ^ 1);
            }
        }
        4 => {
            // maximal material: 16 pieces per side, many queens, capturers for EP
            for c in 0..2u8 {
                let mut guard = 0;
                while m.count_side(c) < 16 && guard < 200 {
                    guard += 1;
                    let s = rng.below(64) as u8;
                    let k = if m.count(PAWN, c) < 8 && rng.chance(1, 2) { PAWN } else { [QUEEN, QUEEN, ROOK, KNIGHT, BISHOP][rng.below(5) as usize] };
                    put(&mut m, s, k, c);
                }
            }
            add_rights(&mut m, rng);
            if rng.chance(1, 2) {
                let save = m.clone();
                if !add_ep(&mut m, rng) || m.count_side(0) > 16 || m.count_side(1) > 16 || m.count(PAWN, 0) > 8 || m.count(PAWN, 1) > 8 {
                    m = save;
                }
            }
        }
        5 => {
            { let n = rng.below(4); scatter(&mut m, rng, n); }
        }
        6 => {
            // the mover's king on the rim with few flight squares, heavy enemy pieces near it and an
            // own piece standing on a line between the king and an enemy slider: mates, stalemates,
            // immobile pinned pieces, single legal moves
            let us = m.stm;
            let old = m.king_sq(us).unwrap();
            m.sq[old as usize] = None;
            let rim: Vec<u8> = (0..64u8).filter(|&s| file_of(s) == 0 || file_of(s) == 7 || rank_of(s) == 0 || rank_of(s) == 7).collect();
            let mut k = *rng.pick(&rim);
            if rng.chance(1, 2) {
                k = [0u8, 7, 56, 63][rng.below(4) as usize];
            }
            if m.sq[k as usize].is_some() {
                return None;
            }
            m.sq[k as usize] = Some((KING, us));
            let (f, r) = (file_of(k), rank_of(k));
            // the enemy king two squares away (takes the opposition) or anywhere
            let ek_old = m.king_sq(us ^ 1).unwrap();
            if rng.chance(2, 3) {
                let d = [(2i8, 0i8), (-2, 0), (0, 2), (0, -2), (2, 1), (1, 2), (-2, 1), (-1, 2), (2, -1), (1, -2), (-2, -1), (-1, -2), (2, 2), (-2, 2), (2, -2), (-2, -2)][rng.below(16) as usize];
                if let Some(s) = mk(f + d.0, r + d.1) {
                    if m.sq[s as usize].is_none() {
                        m.sq[ek_old as usize] = None;
                        m.sq[s as usize] = Some((KING, us ^ 1));
                    }
                }
            }
            // a pinned own piece next to the king with the pinning slider behind it
            for _ in 0..(1 + rng.below(2)) {
                let d = [(0i8, 1i8), (1, 0), (0, -1), (-1, 0), (1, 1), (1, -1), (-1, -1), (-1, 1)][rng.below(8) as usize];
                let n1 = 1 + rng.below(2) as i8;
                let n2 = n1 + 1 + rng.below(3) as i8;
                if let (Some(a), Some(b)) = (mk(f + d.0 * n1, r + d.1 * n1), mk(f + d.0 * n2, r + d.1 * n2)) {
                    let straight = d.0 == 0 || d.1 == 0;
                    let own = [BISHOP, ROOK, KNIGHT, PAWN, QUEEN][rng.below(5) as usize];
                    let pinner = if rng.chance(1, 3) { QUEEN } else if straight { ROOK } else { BISHOP };
                    if put(&mut m, a, own, us) {
                        put(&mut m, b, pinner, us ^ 1);
                    }
                }
            }
            // enemy heavy pieces controlling the king's neighbourhood
            for _ in 0..rng.below(4) {
                let s = mk((f + rng.below(5) as i8 - 2).clamp(0, 7), (r + rng.below(5) as i8 - 2).clamp(0, 7)).unwrap();
                put(&mut m, s, [QUEEN, ROOK, KNIGHT, BISHOP, PAWN][rng.below(5) as usize], us ^ 1);
            }
            { let n = rng.below(4); scatter(&mut m, rng, n); }
        }
        _ => {
            { let n = rng.below(16); scatter(&mut m, rng, n); }
            add_rights(&mut m, rng);
            if rng.chance(1, 3) && !add_ep(&mut m, rng) {
                return None;
            }
        }
    }
    if theme != 3 && theme != 0 && rng.chance(1, 3) {
        add_rights(&mut m, rng);
    }
    // clocks, with a bias to the boundaries the properties name
    m.half = match rng.below(6) {
        0 => 99,
        1 => 100,
        2 => 98,
        _ => rng.below(101) as u8,
    };
    if m.ep.is_some() {
        m.half = 0;
        if rng.chance(1, 4) {
            // an EP flag with a non-zero clock is unreachable but expressible
            m.half = rng.below(101) as u8;
        }
    }
    m.full = match rng.below(6) {
        0 => 65535,
        1 => 65534,
        _ => 1 + rng.below(300) as u16,
    };
    Some(m)
}

/// A model-sound synthesised position (retries until one is found).
pub fn synth_sound(rng: &mut Rng, theme: usize) -> Model {
    loop {
        if let Some(m) = attempt(rng, theme % THEMES.len()) {
            if m.unsound().is_none() {
                return m;
            }
        }
    }
}

/// Any synthesised position, sound or not (used to offer unsound states to the constructors).
pub fn synth_any(rng: &mut Rng, theme: usize) -> Model {
    loop {
        if let Some(m) = attempt(rng, theme % THEMES.len()) {
            return m;
        }
    }
}


// ------------------------------------------------------------------ slider lattice
// Boot states that walk the slider look-up space systematically: one (slider square, subset of the
// relevant blocker squares) pair per boot, so that every table entry of either back end is consulted
// by move generation once the run count exceeds LATTICE_ENTRIES. This is enumeration of boot states,
// not simulation, and is labelled so (DESIGN.md §4.5).

fn relevant(s: u8, rook: bool) -> Vec<u8> {
    let dirs: [(i8, i8); 4] = if rook { [(0, 1), (1, 0), (0, -1), (-1, 0)] } else { [(1, 1), (1, -1), (-1, -1), (-1, 1)] };
    let mut v = vec![];
    for (df, dr) in dirs {
        let (mut f, mut r) = (file_of(s) + df, rank_of(s) + dr);
        // every square of the ray except the last one before the rim ends it
        while let (Some(cur), Some(_next)) = (mk(f, r), mk(f + df, r + dr)) {
            v.push(cur);
            f += df;
            r += dr;
        }
    }
    v.sort();
    v
}

pub fn slider_lattice_entries() -> u64 {
    (0..64u8).map(|s| (1u64 << relevant(s, true).len()) + (1u64 << relevant(s, false).len())).sum()
}

/// Ordered pairs (king square, slider square) on a common rank, file or diagonal.
fn aligned_pairs() -> Vec<(u8, u8, bool)> {
    let mut v = vec![];
    for k in 0..64u8 {
        for a in 0..64u8 {
            if a == k {
                continue;
            }
            let (df, dr) = ((file_of(a) - file_of(k)).abs(), (rank_of(a) - rank_of(k)).abs());
            if df == 0 || dr == 0 {
                v.push((k, a, true));
            } else if df == dr {
                v.push((k, a, false));
            }
        }
    }
    v
}

/// 6 variants per aligned pair: {open line, own piece between, enemy piece between} x {White, Black to move}
pub fn ray_lattice_entries() -> u64 {
    aligned_pairs().len() as u64 * 6
}

pub fn lattice_entries() -> u64 {
    slider_lattice_entries() + ray_lattice_entries()
}

/// The mover's king on k, an enemy slider on an aligned square a, nothing / one own piece / one enemy
/// piece between them: every entry of the ray and between tables that the check and pin computation
/// (fresh and incremental) reads, for both colours.
fn ray_lattice(e: u64, rng: &mut Rng) -> Option<Model> {
    let pairs = aligned_pairs();
    let (k, a, straight) = pairs[(e / 6) as usize % pairs.len()];
    let variant = e % 6;
    let us = (variant % 2) as u8;
    let between_kind = variant / 2; // 0 open, 1 own, 2 enemy
    let (sf, sr) = ((file_of(a) - file_of(k)).signum(), (rank_of(a) - rank_of(k)).signum());
    let mut between: Vec<u8> = vec![];
    let (mut f, mut r) = (file_of(k) + sf, rank_of(k) + sr);
    while mk(f, r) != Some(a) {
        between.push(mk(f, r)?);
        f += sf;
        r += sr;
    }
    for _ in 0..24 {
        let mut m = Model::empty();
        m.stm = us;
        m.sq[k as usize] = Some((KING, us));
        let kind = if rng.chance(1, 3) { QUEEN } else if straight { ROOK } else { BISHOP };
        m.sq[a as usize] = Some((kind, us ^ 1));
        if between_kind != 0 {
            if between.is_empty() {
                // adjacent squares: there is no "between"; fall back to the open line
            } else {
                let b = *rng.pick(&between);
                let c = if between_kind == 1 { us } else { us ^ 1 };
                let mut pk = [KNIGHT, PAWN, BISHOP, ROOK, QUEEN][rng.below(5) as usize];
                if pk == PAWN && (rank_of(b) == 0 || rank_of(b) == 7) {
                    pk = KNIGHT;
                }
                m.sq[b as usize] = Some((pk, c));
            }
        }
        let free: Vec<u8> = (0..64u8).filter(|&q| m.sq[q as usize].is_none()).collect();
        let ek = *rng.pick(&free);
        m.sq[ek as usize] = Some((KING, us ^ 1));
        // a little extra material elsewhere
        for _ in 0..rng.below(3) {
            let q = rng.below(64) as u8;
            let c = rng.below(2) as u8;
            put(&mut m, q, [KNIGHT, PAWN, BISHOP][rng.below(3) as usize], c);
        }
        m.half = rng.below(100) as u8;
        m.full = 1 + rng.below(200) as u16;
        if m.unsound().is_none() && m.checkers().count_ones() <= 2 {
            return Some(m);
        }
    }
    None
}

/// The position for lattice entry `e` (None when no sound arrangement was found in a few tries).
pub fn lattice(e: u64, rng: &mut Rng) -> Option<Model> {
    let e = e % lattice_entries();
    if e >= slider_lattice_entries() {
        return ray_lattice(e - slider_lattice_entries(), rng);
    }
    let mut rest = e;
    let mut pick = None;
    'outer: for rook in [true, false] {
        for s in 0..64u8 {
            let n = 1u64 << relevant(s, rook).len();
            if rest < n {
                pick = Some((rook, s, rest));
                break 'outer;
            }
            rest -= n;
        }
    }
    let (rook, s, subset) = pick?;
    let mask = relevant(s, rook);
    let blockers: Vec<u8> = mask.iter().enumerate().filter(|(i, _)| subset >> i & 1 == 1).map(|(_, &q)| q).collect();
    for _ in 0..24 {
        let mut m = Model::empty();
        m.stm = rng.below(2) as u8;
        let us = m.stm;
        let kind = if rng.chance(1, 3) { QUEEN } else if rook { ROOK } else { BISHOP };
        m.sq[s as usize] = Some((kind, us));
        let mut ok = true;
        for &b in &blockers {
            let c = if rng.chance(1, 2) { us } else { us ^ 1 };
            let mut k = [KNIGHT, BISHOP, ROOK, PAWN, PAWN, QUEEN][rng.below(6) as usize];
            if k == PAWN && (rank_of(b) == 0 || rank_of(b) == 7 || m.count(PAWN, c) >= 8) {
                k = KNIGHT;
            }
            if m.count_side(c) >= 15 {
                ok = false;
                break;
            }
            m.sq[b as usize] = Some((k, c));
        }
        if !ok {
            continue;
        }
        // kings off the slider's lines, not on relevant squares
        let off_lines = |q: u8| {
            let (df, dr) = ((file_of(q) - file_of(s)).abs(), (rank_of(q) - rank_of(s)).abs());
            df != 0 && dr != 0 && df != dr
        };
        let free: Vec<u8> = (0..64u8).filter(|&q| m.sq[q as usize].is_none() && off_lines(q)).collect();
        if free.len() < 2 {
            continue;
        }
        let wk = *rng.pick(&free);
        let bk = *rng.pick(&free);
        if wk == bk {
            continue;
        }
        m.sq[wk as usize] = Some((KING, WHITE));
        m.sq[bk as usize] = Some((KING, BLACK));
        m.half = rng.below(50) as u8;
        m.full = 1 + rng.below(80) as u16;
        if m.unsound().is_none() && !m.in_check(us) {
            return Some(m);
        }
    }
    None
}
