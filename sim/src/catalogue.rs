//! F6 / F7: the corruption catalogues. Each operator damages the *durable form* of a state
//! the run has reached (the canonical record, or the builder value) in exactly one field /
//! aspect and carries its exact expected outcome. Candidates whose damage is not confined to
//! one field (by the model's own defect list) are discarded and counted.

use crate::model::*;

#[derive(Clone, PartialEq, Eq, Debug)]
pub enum Expect {
    /// rejected with exactly this error variant (the field is named)
    Variant(&'static str),
    /// rejected, variant not constrained (empty field, trailing space: grey zone)
    Reject,
    /// only totality and "accept => valid structure, right denotation, sound board"
    Total,
}

#[derive(Clone, Debug)]
pub struct TextCase {
    pub name: &'static str,
    pub text: String,
    pub expect: Expect,
    /// apply through the plain entry point only (e.g. Shredder letter into from_fen(_, false))
    pub plain_entry_only: bool,
}

fn first_letter_replaced(s: &str, with: &str) -> String {
    let mut done = false;
    let mut out = String::new();
    for ch in s.chars() {
        if !done && ch.is_ascii_alphabetic() {
            out.push_str(with);
            done = true;
        } else {
            out.push(ch);
        }
    }
    out
}

fn all_in(d: &[(Aspect, &'static str)], a: Aspect) -> bool {
    !d.is_empty() && d.iter().all(|x| x.0 == a)
}

fn find_empty(m: &Model, pred: impl Fn(u8) -> bool) -> Option<u8> {
    (0..64u8).find(|&s| m.sq[s as usize].is_none() && pred(s))
}

/// Position-level placement damage. Returns a model whose only defects are placement defects
/// (and which contains the intended one), or None.
pub const PLACEMENT_DAMAGE: &[&str] = &[
    "no-king",
    "two-kings",
    "pawn-rank1",
    "pawn-rank8",
    "17th-piece",
    "9th-pawn",
    "opponent-in-check",
    "kings-adjacent",
    "kings-adjacent-diagonal",
];

pub fn damage_placement(m: &Model, kind: &str) -> Option<Model> {
    let mut d = m.clone();
    let us = m.stm;
    let want: &str;
    match kind {
        "no-king" => {
            let k = d.king_sq(us)?;
            d.sq[k as usize] = None;
            d.rights[us as usize] = [None, None];
            want = "king-count";
        }
        "two-kings" => {
            let ek = d.king_sq(us ^ 1)?;
            // not adjacent to the enemy king, so the only defect is the count
            let e = find_empty(&d, |s| {
                (8..56).contains(&s) && ((file_of(s) - file_of(ek)).abs() > 1 || (rank_of(s) - rank_of(ek)).abs() > 1)
            })?;
            if d.count_side(us) >= 16 {
                return None;
            }
            d.sq[e as usize] = Some((KING, us));
            want = "king-count";
        }
        "pawn-rank1" | "pawn-rank8" => {
            let (c, lo) = if kind == "pawn-rank1" { (WHITE, 0u8) } else { (BLACK, 56u8) };
            if d.count(PAWN, c) >= 8 || d.count_side(c) >= 16 {
                return None;
            }
            let e = (lo..lo + 8).find(|&s| d.sq[s as usize].is_none())?;
            d.sq[e as usize] = Some((PAWN, c));
            want = "pawn-on-back-rank";
        }
        "17th-piece" => {
            let c = (0..2u8).find(|&c| d.count_side(c) == 16)?;
            let e = find_empty(&d, |s| (16..48).contains(&s))?;
            d.sq[e as usize] = Some((KNIGHT, c));
            want = "piece-count";
        }
        "9th-pawn" => {
            let c = (0..2u8).find(|&c| d.count(PAWN, c) == 8)?;
            let back = if c == WHITE { 0 } else { 7 };
            // turn one of that side's non-king pieces standing on ranks 2..7 into a pawn
            let s = (8..56u8).find(|&s| {
                matches!(d.sq[s as usize], Some((k, cc)) if cc == c && k != KING && k != PAWN) && rank_of(s) != back
            })?;
            d.sq[s as usize] = Some((PAWN, c));
            want = "pawn-count";
        }
        "opponent-in-check" => {
            // drop one of the mover's knights onto a square attacking the enemy king
            if d.count_side(us) >= 16 {
                return None;
            }
            let ek = d.king_sq(us ^ 1)?;
            let (f, r) = (file_of(ek), rank_of(ek));
            let offs = [(1i8, 2i8), (2, 1), (2, -1), (1, -2), (-1, -2), (-2, -1), (-2, 1), (-1, 2)];
            let s = offs.iter().filter_map(|&(a, b)| mk(f + a, r + b)).find(|&s| d.sq[s as usize].is_none())?;
            d.sq[s as usize] = Some((KNIGHT, us));
            want = "opponent-in-check";
        }
        "kings-adjacent" | "kings-adjacent-diagonal" => {
            let k = d.king_sq(us)?;
            let ek = d.king_sq(us ^ 1)?;
            let (f, r) = (file_of(ek), rank_of(ek));
            // orthogonal neighbours first, or diagonal neighbours only
            let offs: &[(i8, i8)] = if kind == "kings-adjacent" {
                &[(0, 1), (1, 0), (0, -1), (-1, 0), (1, 1), (1, -1), (-1, -1), (-1, 1)]
            } else {
                &[(1, 1), (1, -1), (-1, -1), (-1, 1)]
            };
            d.sq[k as usize] = None;
            d.rights[us as usize] = [None, None];
            let s = offs.iter().filter_map(|&(a, b)| mk(f + a, r + b)).find(|&s| d.sq[s as usize].is_none())?;
            d.sq[s as usize] = Some((KING, us));
            want = "kings-adjacent";
        }
        _ => return None,
    }
    let defects = d.defects();
    if all_in(&defects, Aspect::Placement) && defects.iter().any(|x| x.1 == want) {
        // the defect must be the intended one only, apart from consequences in the same field
        let allowed: &[&str] = match want {
            "kings-adjacent" => &["kings-adjacent", "opponent-in-check"],
            w => {
                if defects.iter().all(|x| x.1 == w) {
                    return Some(d);
                } else {
                    return None;
                }
            }
        };
        if defects.iter().all(|x| allowed.contains(&x.1)) {
            return Some(d);
        }
    }
    None
}

/// A right the position does not support, as the only defect (castling group).
pub fn damage_castling(m: &Model, shredder: bool) -> Option<Model> {
    for c in 0..2u8 {
        let Some(k) = m.king_sq(c) else { continue };
        let back = if c == WHITE { 0 } else { 7 };
        for w in 0..2usize {
            if m.rights[c as usize][w].is_some() {
                continue;
            }
            let files: Vec<u8> = if shredder {
                (0..8u8).filter(|&f| if w == 0 { (f as i8) > file_of(k) } else { (f as i8) < file_of(k) }).collect()
            } else {
                // plain notation can only name the h / a file, and must stay on the text's wing
                let f = if w == 0 { 7u8 } else { 0u8 };
                if (w == 0 && (f as i8) > file_of(k)) || (w == 1 && (f as i8) < file_of(k)) {
                    vec![f]
                } else {
                    vec![]
                }
            };
            for f in files {
                let supported = rank_of(k) == back && m.sq[mk(f as i8, back).unwrap() as usize] == Some((ROOK, c));
                if supported {
                    continue;
                }
                if !shredder && rank_of(k) == back {
                    // an X-FEN style reader may take K/Q as "the outermost rook on that wing": only a wing
                    // without any own rook makes the letter unsupported under every reading
                    let any_rook_on_wing = (0..8i8).any(|g| {
                        (if w == 0 { g > file_of(k) } else { g < file_of(k) }) && m.sq[mk(g, back).unwrap() as usize] == Some((ROOK, c))
                    });
                    if any_rook_on_wing {
                        continue;
                    }
                }
                let mut d = m.clone();
                d.rights[c as usize][w] = Some(f);
                if all_in(&d.defects(), Aspect::Castling) {
                    return Some(d);
                }
            }
        }
    }
    None
}

/// Unsupported rights where everything but ONE circumstance is in order:
/// "king-off-rank": an own rook stands at home on the named file, but the king is not on its back rank
/// (in particular: on the opponent's back rank); "rook-not-home": the king is at home and an own rook
/// stands on the named file, but not on the back-rank square.
pub fn damage_castling_specific(m: &Model, shredder: bool, which: &str) -> Option<Model> {
    for c in 0..2u8 {
        let Some(k) = m.king_sq(c) else { continue };
        let back = if c == WHITE { 0 } else { 7 };
        for w in 0..2usize {
            if m.rights[c as usize][w].is_some() {
                continue;
            }
            for f in 0..8u8 {
                let right_wing = if w == 0 { (f as i8) > file_of(k) } else { (f as i8) < file_of(k) };
                if !right_wing || (!shredder && f != (if w == 0 { 7 } else { 0 })) {
                    continue;
                }
                let home = m.sq[mk(f as i8, back).unwrap() as usize] == Some((ROOK, c));
                let on_file_elsewhere = (0..8i8).any(|r| r != back && m.sq[mk(f as i8, r).unwrap() as usize] == Some((ROOK, c)));
                let fits = match which {
                    "king-off-rank" => home && rank_of(k) != back,
                    _ => !home && on_file_elsewhere && rank_of(k) == back,
                };
                if !fits {
                    continue;
                }
                if !shredder && rank_of(k) == back && own_rook_on_wing(m, c, k, w) {
                    continue; // an X-FEN reader may bind K/Q to another own rook on that wing
                }
                let mut d = m.clone();
                d.rights[c as usize][w] = Some(f);
                if all_in(&d.defects(), Aspect::Castling) {
                    return Some(d);
                }
            }
        }
    }
    None
}

/// A right naming a file of the side's back rank on which an *enemy* rook stands (correct wing).
pub fn damage_castling_enemy_rook(m: &Model, shredder: bool) -> Option<Model> {
    for c in 0..2u8 {
        let Some(k) = m.king_sq(c) else { continue };
        let back = if c == WHITE { 0 } else { 7 };
        if rank_of(k) != back {
            continue;
        }
        for w in 0..2usize {
            if m.rights[c as usize][w].is_some() {
                continue;
            }
            for f in 0..8u8 {
                let right_wing = if w == 0 { (f as i8) > file_of(k) } else { (f as i8) < file_of(k) };
                if !right_wing || m.sq[mk(f as i8, back).unwrap() as usize] != Some((ROOK, c ^ 1)) {
                    continue;
                }
                if !shredder && (f != (if w == 0 { 7 } else { 0 }) || own_rook_on_wing(m, c, k, w)) {
                    continue; // (an X-FEN reader may bind K/Q to another own rook on that wing)
                }
                let mut d = m.clone();
                d.rights[c as usize][w] = Some(f);
                if all_in(&d.defects(), Aspect::Castling) {
                    return Some(d);
                }
            }
        }
    }
    None
}

/// Is there any own rook on the back rank on that wing of the king?
fn own_rook_on_wing(m: &Model, c: u8, k: u8, w: usize) -> bool {
    let back = if c == WHITE { 0 } else { 7 };
    (0..8i8).any(|g| (if w == 0 { g > file_of(k) } else { g < file_of(k) }) && m.sq[mk(g, back).unwrap() as usize] == Some((ROOK, c)))
}

/// Well-formed EP squares on the mover's EP rank that the position does not support.
pub fn damage_ep(m: &Model) -> Vec<(&'static str, u8)> {
    let mut out = vec![];
    let mut seen: Vec<&'static str> = vec![];
    for f in 0..8u8 {
        if m.ep == Some(f) {
            continue;
        }
        let mut d = m.clone();
        d.ep = Some(f);
        let defects = d.defects();
        if all_in(&defects, Aspect::EnPassant) {
            let name = if defects.iter().any(|x| x.1 == "ep-no-pawn") {
                "E.no-pawn"
            } else if defects.iter().any(|x| x.1 == "ep-passed-occupied") {
                "E.passed-occupied"
            } else {
                "E.origin-occupied"
            };
            if !seen.contains(&name) {
                seen.push(name);
                out.push((name, f));
            }
        }
    }
    out
}

/// The fixed-position operator table for the text catalogue. Slots that do not apply to the
/// current state are None, so operator indices are stable across states (for the shrinker).
pub fn text_cases(m: &Model, shredder: bool) -> Vec<Option<TextCase>> {
    let rec = m.to_fen(shredder);
    let f: Vec<String> = rec.split(' ').map(|x| x.to_string()).collect();
    let with = |i: usize, v: &str| -> String {
        let mut g = f.clone();
        g[i] = v.to_string();
        g.join(" ")
    };
    let ranks: Vec<String> = f[0].split('/').map(|x| x.to_string()).collect();
    let mut cases: Vec<Option<TextCase>> = vec![];
    let mut push = |name: &'static str, text: Option<String>, expect: Expect| {
        cases.push(text.map(|text| TextCase { name, text, expect, plain_entry_only: false }));
    };
    let v = |s: &'static str| Expect::Variant(s);

    // ---- placement -> InvalidBoard
    push("P.nonpiece-x", Some(with(0, &first_letter_replaced(&f[0], "x"))), v("InvalidBoard"));
    push("P.digit-9", Some(with(0, &first_letter_replaced(&f[0], "9"))), v("InvalidBoard"));
    push("P.multibyte", Some(with(0, &first_letter_replaced(&f[0], "é"))), v("InvalidBoard"));
    push("P.emoji", Some(with(0, &first_letter_replaced(&f[0], "🙂"))), v("InvalidBoard"));
    push("P.seven-ranks-drop-first", Some(with(0, &ranks[1..].join("/"))), v("InvalidBoard"));
    push("P.seven-ranks-drop-last", Some(with(0, &ranks[..7].join("/"))), v("InvalidBoard"));
    push("P.seven-ranks-drop-middle", Some(with(0, &[&ranks[..3], &ranks[4..]].concat().join("/"))), v("InvalidBoard"));
    push("P.one-rank", Some(with(0, &ranks[0])), v("InvalidBoard"));
    push("P.nine-ranks", Some(with(0, &format!("{}/8", f[0]))), v("InvalidBoard"));
    push("P.nine-ranks-front", Some(with(0, &format!("8/{}", f[0]))), v("InvalidBoard"));
    push(
        "P.rank-9-files",
        Some(with(0, &{
            let mut r = ranks.clone();
            r[4] = format!("{}1", r[4]);
            r.join("/")
        })),
        v("InvalidBoard"),
    );
    push(
        "P.rank-7-files",
        Some(with(0, &{
            let mut r = ranks.clone();
            let mut cs: Vec<char> = r[4].chars().collect();
            let last = cs.pop().unwrap();
            if let Some(d) = last.to_digit(10) {
                if d > 1 {
                    cs.push(char::from_digit(d - 1, 10).unwrap());
                }
            }
            r[4] = cs.into_iter().collect();
            r.join("/")
        })),
        v("InvalidBoard"),
    );
    push(
        "P.empty-rank",
        Some(with(0, &{
            let mut r = ranks.clone();
            r[3] = String::new();
            r.join("/")
        })),
        v("InvalidBoard"),
    );
    for kind in PLACEMENT_DAMAGE {
        let name: &'static str = match *kind {
            "no-king" => "P.no-king",
            "two-kings" => "P.two-kings",
            "pawn-rank1" => "P.pawn-rank1",
            "pawn-rank8" => "P.pawn-rank8",
            "17th-piece" => "P.17th-piece",
            "9th-pawn" => "P.9th-pawn",
            "opponent-in-check" => "P.opponent-in-check",
            "kings-adjacent-diagonal" => "P.kings-adjacent-diagonal",
            _ => "P.kings-adjacent",
        };
        let t = damage_placement(m, kind).and_then(|d| {
            if !shredder && !d.plain_expressible() {
                None
            } else {
                Some(d.to_fen(shredder))
            }
        });
        // "opponent in check" is a defect of the pair (placement, side to move): either field may be named
        push(name, t, if *kind == "opponent-in-check" { Expect::Reject } else { v("InvalidBoard") });
    }

    // ---- side -> InvalidSideToMove
    for (name, val) in [("S.x", "x"), ("S.upper", "W"), ("S.two", "wb"), ("S.multibyte", "é"), ("S.emoji", "🙂"), ("S.dash", "-")] {
        push(name, Some(with(1, val)), v("InvalidSideToMove"));
    }
    push("S.empty", Some(with(1, "")), Expect::Reject);

    // ---- castling -> InvalidCastlingRights
    push("K.unknown-letter", Some(with(2, "x")), v("InvalidCastlingRights"));
    push(
        "K.duplicate",
        Some(with(2, &if f[2] == "-" { (if shredder { "HH" } else { "KK" }).to_string() } else { format!("{}{}", f[2], f[2].chars().next().unwrap()) })),
        v("InvalidCastlingRights"),
    );
    push("K.letter-dash", Some(with(2, &format!("{}-", if f[2] == "-" { "K" } else { &f[2] }))), v("InvalidCastlingRights"));
    push("K.dash-letter", Some(with(2, &format!("-{}", if f[2] == "-" { "K" } else { &f[2] }))), v("InvalidCastlingRights"));
    push("K.multibyte", Some(with(2, "é")), v("InvalidCastlingRights"));
    push("K.digit", Some(with(2, "1")), v("InvalidCastlingRights"));
    push("K.unsupported-right", damage_castling(m, shredder).map(|d| d.to_fen(shredder)), v("InvalidCastlingRights"));
    // a second, different file on the same wing as an existing right (before and after it)
    {
        let mut before = None;
        let mut after = None;
        if shredder && f[2] != "-" {
            'find: for (i, ch) in f[2].char_indices() {
                let c = if ch.is_ascii_uppercase() { WHITE } else { BLACK };
                if let Some(k) = m.king_sq(c) {
                    let file = ch.to_ascii_lowercase() as u8 - b'a';
                    let short = (file as i8) > file_of(k);
                    for g in 0..8u8 {
                        let same_wing = if short { (g as i8) > file_of(k) } else { (g as i8) < file_of(k) };
                        if g != file && same_wing {
                            let letter = if c == WHITE { (b'A' + g) as char } else { (b'a' + g) as char };
                            let mut a = f[2].clone();
                            a.insert(i, letter);
                            let mut b = f[2].clone();
                            b.insert(i + 1, letter);
                            before = Some(with(2, &a));
                            after = Some(with(2, &b));
                            break 'find;
                        }
                    }
                }
            }
        }
        push("K.second-file-same-wing-before", before, v("InvalidCastlingRights"));
        push("K.second-file-same-wing-after", after, v("InvalidCastlingRights"));
    }
    push("K.empty", Some(with(2, "")), Expect::Reject);
    // a Shredder file letter offered to the plain entry point
    {
        let t = if shredder && f[2] != "-" && !f[2].chars().all(|c| "KQkq".contains(c)) { Some(rec.clone()) } else { None };
        // the statement only says that *plain parsing* (FromStr) accepts both notations; what
        // from_fen(_, false) does with a file letter is left open, so only totality / soundness / denotation
        cases.push(t.map(|text| TextCase { name: "K.shredder-letter-into-plain", text, expect: Expect::Total, plain_entry_only: true }));
    }
    let mut push = |name: &'static str, text: Option<String>, expect: Expect| {
        cases.push(text.map(|text| TextCase { name, text, expect, plain_entry_only: false }));
    };

    // ---- en passant -> InvalidEnPassant
    let eprank = if m.stm == WHITE { '6' } else { '3' };
    let other = if m.stm == WHITE { '3' } else { '6' };
    for (name, val) in [
        ("E.file-only", "e".to_string()),
        ("E.three-chars", format!("e{}{}", eprank, eprank)),
        ("E.bad-file", format!("z{}", eprank)),
        ("E.rank-0", "e0".to_string()),
        ("E.upper", format!("E{}", eprank)),
        ("E.multibyte", format!("é{}", eprank)),
        ("E.rank-4", "e4".to_string()),
        ("E.rank-5", "e5".to_string()),
        ("E.other-sides-rank", format!("e{}", other)),
        ("E.digits", "33".to_string()),
        ("E.dash-dash", "--".to_string()),
        ("E.one-two-byte-char", "é".to_string()),
        ("E.one-three-byte-char", "€".to_string()),
        ("E.two-byte-char-then-rank", format!("ß{}", eprank)),
        ("E.file-then-two-byte-char", "eß".to_string()),
    ] {
        push(name, Some(with(3, &val)), v("InvalidEnPassant"));
    }
    {
        let dm = damage_ep(m);
        for name in ["E.no-pawn", "E.passed-occupied", "E.origin-occupied"] {
            let t = dm.iter().find(|x| x.0 == name).map(|x| with(3, &format!("{}{}", (b'a' + x.1) as char, eprank)));
            push(name, t, v("InvalidEnPassant"));
        }
    }
    push("E.empty", Some(with(3, "")), Expect::Reject);

    // ---- half-move clock -> InvalidHalfMoveClock
    for (name, val) in [
        ("H.letter", "x"),
        ("H.digit-letter", "1x"),
        ("H.negative", "-1"),
        ("H.decimal", "1.5"),
        ("H.arabic-digit", "١"),
        ("H.101", "101"),
        ("H.255", "255"),
        ("H.256", "256"),
        ("H.20-digits", "99999999999999999999"),
        ("H.dash", "-"),
        ("H.two-byte-char", "é"),
    ] {
        push(name, Some(with(4, val)), v("InvalidHalfMoveClock"));
    }
    push("H.empty", Some(with(4, "")), Expect::Reject);

    // ---- full-move number -> InvalidFullmoveNumber
    for (name, val) in [
        ("N.letter", "x"),
        ("N.negative", "-1"),
        ("N.zero", "0"),
        ("N.65536", "65536"),
        ("N.11-digits", "99999999999"),
        ("N.decimal", "1.0"),
        ("N.dash", "-"),
        ("N.two-byte-char", "é"),
    ] {
        push(name, Some(with(5, val)), v("InvalidFullmoveNumber"));
    }
    push("N.empty", Some(with(5, "")), Expect::Reject);

    // ---- field count
    push("T.trunc-1", Some(f[..1].join(" ")), v("MissingField"));
    push("T.trunc-2", Some(f[..2].join(" ")), v("MissingField"));
    push("T.trunc-3", Some(f[..3].join(" ")), v("MissingField"));
    push("T.trunc-4", Some(f[..4].join(" ")), v("MissingField"));
    push("T.trunc-5", Some(f[..5].join(" ")), v("MissingField"));
    push("T.extra-field", Some(format!("{} x", rec)), v("TooManyFields"));
    push("T.extra-two", Some(format!("{} 1 1", rec)), v("TooManyFields"));
    push("T.extra-record", Some(format!("{} {}", rec, rec)), v("TooManyFields"));
    push("T.trailing-space", Some(format!("{} ", rec)), Expect::Reject);
    push("T.leading-space", Some(format!(" {}", rec)), Expect::Reject);
    push("T.double-space", Some(rec.replacen(' ', "  ", 1)), Expect::Reject);

    // ---- whole-record faults: totality + accept => valid
    push("W.empty", Some(String::new()), Expect::Total);
    push("W.space", Some(" ".to_string()), Expect::Total);
    push("W.slash", Some("/".to_string()), Expect::Total);
    push("W.eight-slashes", Some("////////".to_string()), Expect::Total);
    push("W.five-spaces", Some("     ".to_string()), Expect::Total);
    push("W.long-run", Some("8/".repeat(5000)), Expect::Total);
    push("W.tabs", Some(rec.replace(' ', "\t")), Expect::Total);
    push("W.newline-end", Some(format!("{}\n", rec)), Expect::Total);
    push("W.nul-inside", Some(rec.replacen('/', "/\0", 1)), Expect::Total);
    push("W.fields-swapped-45", Some([&f[0], &f[1], &f[2], &f[3], &f[5], &f[4]].iter().map(|x| x.as_str()).collect::<Vec<_>>().join(" ")), Expect::Total);
    push("W.fields-swapped-23", Some([&f[0], &f[1], &f[3], &f[2], &f[4], &f[5]].iter().map(|x| x.as_str()).collect::<Vec<_>>().join(" ")), Expect::Total);
    push("W.dup-range", Some(format!("{}{}", &rec[..rec.len() / 2], rec)), Expect::Total);
    push("W.slashes-for-spaces", Some(rec.replace(' ', "/")), Expect::Total);
    push("W.plus-clock", Some(with(4, &format!("+{}", f[4]))), Expect::Total);
    push("W.leading-zero-clock", Some(with(5, &format!("00{}", f[5]))), Expect::Total);
    push("W.zero-digit", Some(with(0, &format!("0{}", f[0]))), Expect::Total);
    push("W.split-digit", Some(with(0, &f[0].replacen('8', "44", 1))), Expect::Total);
    push("W.castling-reversed", Some(with(2, &f[2].chars().rev().collect::<String>())), Expect::Total);
    // operators added later are appended here so that earlier operator indices stay stable
    push("K.right-on-enemy-rook", damage_castling_enemy_rook(m, shredder).map(|d| d.to_fen(shredder)), v("InvalidCastlingRights"));
    push("K.right-king-off-back-rank-rook-at-home", damage_castling_specific(m, shredder, "king-off-rank").map(|d| d.to_fen(shredder)), v("InvalidCastlingRights"));
    push("K.right-rook-on-file-not-home", damage_castling_specific(m, shredder, "rook-not-home").map(|d| d.to_fen(shredder)), v("InvalidCastlingRights"));
    // U+212A KELVIN SIGN lower-cases to ASCII 'k': a Unicode-aware case fold would read it as a king
    push("P.kelvin-sign-for-king", if f[0].contains('K') { Some(with(0, &f[0].replacen('K', "\u{212A}", 1))) } else { None }, v("InvalidBoard"));
    push("K.kelvin-sign", if f[2].contains('K') { Some(with(2, &f[2].replacen('K', "\u{212A}", 1))) } else { Some(with(2, "\u{212A}")) }, v("InvalidCastlingRights"));
    // a rank whose digits add up to 8 + 256 (wraps to 8 in an 8-bit counter) and one that overflows it
    push("P.rank-264-files", Some(with(0, &format!("{}{}", "8".repeat(32), f[0]))), v("InvalidBoard"));
    push("P.rank-digit-run-300", Some(with(0, &format!("{}{}", "9".repeat(34), f[0]))), v("InvalidBoard"));
    // truncation at every byte offset (the canonical record is ASCII)
    for cut in 0..rec.len() {
        cases.push(Some(TextCase { name: "W.truncate-at-byte", text: rec[..cut].to_string(), expect: Expect::Total, plain_entry_only: false }));
    }
    cases
}

// ---------------------------------------------------------------------------- builder

/// A builder state in model space (the EP aspect is a full square, as in `BoardBuilder`).
#[derive(Clone, Debug)]
pub struct BState {
    pub m: Model,
    pub ep_sq: Option<u8>,
}

impl BState {
    pub fn of(m: &Model) -> BState {
        let ep_sq = m.ep.map(|f| (if m.stm == WHITE { 5 } else { 2 }) * 8 + f);
        BState { m: m.clone(), ep_sq }
    }

    /// Can a Shredder-FEN record express this state? (rights on the text-implied wing)
    pub fn expressible(&self) -> bool {
        for c in 0..2u8 {
            let r = self.m.rights[c as usize];
            if r[0].is_none() && r[1].is_none() {
                continue;
            }
            if self.m.count(KING, c) != 1 {
                // the record is rejected for its placement before rights are read; any letters do
                continue;
            }
            let kf = file_of(self.m.king_sq(c).unwrap());
            if let Some(f) = r[0] {
                if !((f as i8) > kf) {
                    return false;
                }
            }
            if let Some(f) = r[1] {
                if !((f as i8) < kf) {
                    return false;
                }
            }
        }
        true
    }

    /// The Shredder record of this state (model writer; EP as the raw square).
    pub fn text(&self) -> String {
        format!(
            "{} {} {} {} {} {}",
            self.m.placement_text(),
            if self.m.stm == WHITE { 'w' } else { 'b' },
            self.m.castling_text(true),
            self.ep_sq.map_or("-".to_string(), sq_name),
            self.m.half,
            self.m.full
        )
    }
}

#[derive(Clone, Debug)]
pub struct BuilderCase {
    pub name: &'static str,
    pub state: BState,
    /// expected BoardBuilderError variant; None = no expectation beyond parity / soundness
    pub expect: Option<&'static str>,
}

pub fn builder_cases(m: &Model) -> Vec<Option<BuilderCase>> {
    let mut cases: Vec<Option<BuilderCase>> = vec![];
    let base = BState::of(m);
    cases.push(Some(BuilderCase { name: "B.undamaged", state: base.clone(), expect: None }));
    for kind in PLACEMENT_DAMAGE {
        let name: &'static str = match *kind {
            "no-king" => "B.no-king",
            "two-kings" => "B.two-kings",
            "pawn-rank1" => "B.pawn-rank1",
            "pawn-rank8" => "B.pawn-rank8",
            "17th-piece" => "B.17th-piece",
            "9th-pawn" => "B.9th-pawn",
            "opponent-in-check" => "B.opponent-in-check",
            "kings-adjacent-diagonal" => "B.kings-adjacent-diagonal",
            _ => "B.kings-adjacent",
        };
        cases.push(damage_placement(m, kind).map(|d| BuilderCase { name, state: BState::of(&d), expect: Some("InvalidBoard") }));
    }
    cases.push(damage_castling(m, true).map(|d| BuilderCase { name: "B.unsupported-right", state: BState::of(&d), expect: Some("InvalidCastlingRights") }));
    // a right on the wrong side of the king: no record can express it. Three slots: any file, and up to
    // two files that hold an own rook (the subtle case: everything about the right is fine but its wing)
    {
        let mut plain: Option<Model> = None;
        let mut with_rook: Vec<Model> = vec![];
        for c in 0..2u8 {
            let Some(k) = m.king_sq(c) else { continue };
            let back = if c == WHITE { 0 } else { 7 };
            for w in 0..2usize {
                for f in 0..8u8 {
                    let wrong = if w == 0 { (f as i8) <= file_of(k) } else { (f as i8) >= file_of(k) };
                    if !wrong || m.rights[c as usize][w] == Some(f) || m.rights[c as usize][w ^ 1] == Some(f) {
                        continue;
                    }
                    let mut d = m.clone();
                    d.rights[c as usize][w] = Some(f);
                    if !all_in(&d.defects(), Aspect::Castling) {
                        continue;
                    }
                    let own_rook = rank_of(k) == back && m.sq[mk(f as i8, back).unwrap() as usize] == Some((ROOK, c));
                    if own_rook && with_rook.len() < 2 {
                        with_rook.push(d);
                    } else if !own_rook && plain.is_none() {
                        plain = Some(d);
                    }
                }
            }
        }
        let mut it = with_rook.into_iter();
        cases.push(plain.map(|d| BuilderCase { name: "B.right-wrong-side", state: BState::of(&d), expect: Some("InvalidCastlingRights") }));
        cases.push(it.next().map(|d| BuilderCase { name: "B.right-wrong-side-own-rook-1", state: BState::of(&d), expect: Some("InvalidCastlingRights") }));
        cases.push(it.next().map(|d| BuilderCase { name: "B.right-wrong-side-own-rook-2", state: BState::of(&d), expect: Some("InvalidCastlingRights") }));
    }
    cases.push(damage_castling_enemy_rook(m, true).map(|d| BuilderCase { name: "B.right-on-enemy-rook", state: BState::of(&d), expect: Some("InvalidCastlingRights") }));
    cases.push(damage_castling_specific(m, true, "king-off-rank").map(|d| BuilderCase { name: "B.right-king-off-back-rank-rook-at-home", state: BState::of(&d), expect: Some("InvalidCastlingRights") }));
    cases.push(damage_castling_specific(m, true, "rook-not-home").map(|d| BuilderCase { name: "B.right-rook-on-file-not-home", state: BState::of(&d), expect: Some("InvalidCastlingRights") }));
    // EP aspect
    {
        let eprank: u8 = if m.stm == WHITE { 5 } else { 2 };
        for (name, rank) in [("B.ep-rank-4", 3u8), ("B.ep-rank-5", 4u8), ("B.ep-other-sides-rank", 7 - eprank), ("B.ep-rank-1", 0u8), ("B.ep-rank-8", 7u8)] {
            let mut s = base.clone();
            s.m.ep = None;
            s.ep_sq = Some(rank * 8 + 4);
            cases.push(Some(BuilderCase { name, state: s, expect: Some("InvalidEnPassant") }));
        }
        let dm = damage_ep(m);
        for name in ["E.no-pawn", "E.passed-occupied", "E.origin-occupied"] {
            let bname: &'static str = match name {
                "E.no-pawn" => "B.ep-no-pawn",
                "E.passed-occupied" => "B.ep-passed-occupied",
                _ => "B.ep-origin-occupied",
            };
            cases.push(dm.iter().find(|x| x.0 == name).map(|x| {
                let mut d = m.clone();
                d.ep = Some(x.1);
                BuilderCase { name: bname, state: BState::of(&d), expect: Some("InvalidEnPassant") }
            }));
        }
    }
    for (name, h) in [("B.half-101", 101u8), ("B.half-150", 150u8), ("B.half-255", 255u8)] {
        let mut s = base.clone();
        s.m.half = h;
        cases.push(Some(BuilderCase { name, state: s, expect: Some("InvalidHalfMoveClock") }));
    }
    {
        let mut s = base.clone();
        s.m.full = 0;
        cases.push(Some(BuilderCase { name: "B.full-0", state: s, expect: Some("InvalidFullmoveNumber") }));
    }
    // boundary values that must be accepted exactly when the parser accepts them
    for (name, h, n) in [("B.half-100", 100u8, m.full), ("B.full-65535", m.half, 65535u16), ("B.half-0-full-1", 0u8, 1u16)] {
        let mut s = base.clone();
        s.m.half = h;
        s.m.full = n;
        cases.push(Some(BuilderCase { name, state: s, expect: None }));
    }
    cases
}
