//! Operations, faults, boot records and the replay-file text format.
//! A trace contains no PRNG state: replay is a pure function of the file and the code.

use crate::model::MMove;

#[derive(Clone, Copy, PartialEq, Eq, Debug)]
pub enum Via {
    Play,
    TryPlay,
    Unchecked,
}

impl Via {
    pub fn name(self) -> &'static str {
        match self {
            Via::Play => "play",
            Via::TryPlay => "try",
            Via::Unchecked => "unchecked",
        }
    }
    pub fn parse(s: &str) -> Option<Via> {
        Some(match s {
            "play" => Via::Play,
            "try" => Via::TryPlay,
            "unchecked" => Via::Unchecked,
            _ => return None,
        })
    }
}

#[derive(Clone, Copy, PartialEq, Eq, Debug)]
pub enum Route {
    /// `{}` -> from_fen(_, false)
    Fen,
    /// `{:#}` -> from_fen(_, true)
    Sfen,
    /// `{}` -> FromStr
    StrPlain,
    /// `{:#}` -> FromStr
    StrShredder,
    /// BoardBuilder::from_board(..).build()
    Builder,
}

impl Route {
    pub const ALL: [Route; 5] = [Route::Fen, Route::Sfen, Route::StrPlain, Route::StrShredder, Route::Builder];
    pub fn name(self) -> &'static str {
        match self {
            Route::Fen => "fen",
            Route::Sfen => "sfen",
            Route::StrPlain => "str-plain",
            Route::StrShredder => "str-shredder",
            Route::Builder => "builder",
        }
    }
    pub fn parse(s: &str) -> Option<Route> {
        Route::ALL.iter().copied().find(|r| r.name() == s)
    }
    pub fn needs_plain(self) -> bool {
        matches!(self, Route::Fen | Route::StrPlain)
    }
}

#[derive(Clone, PartialEq, Eq, Debug)]
pub enum Boot {
    /// Board::double_chess960_startpos(w, b)
    Start(u32, u32),
    /// a (model-canonical, Shredder) record offered through a route
    Text(String, Route),
}

#[derive(Clone, PartialEq, Eq, Debug)]
pub enum Op {
    /// a legal move (chosen from the model's list) played through one of the three entry points
    Play(MMove, Via),
    /// null move (F10 when refused)
    Null,
    /// F1/F2: a request that may be illegal, through try_play or play
    Request(MMove, Via),
    /// F4/F5: persist, drop, recover, continue on the recovered board
    Restart(Route),
    /// F9: clock jump through the public setters (None = leave)
    Clock(Option<u8>, Option<u16>),
    /// F9 at restart: recover from the record with edited clock fields
    RestartEdited(u8, u16),
    /// F3: masked generation with abort at call index k (None = never abort)
    Mask(u64, Option<u8>),
    /// full 64*64*7 sweep (C04: is_legal; C15: try_play / play)
    Sweep,
    /// F6: the whole text corruption catalogue on the record of the current state
    /// (Some(i) = only operator i, used by the shrinker)
    TextCatalogue(Option<u16>),
    /// F7: the builder corruption catalogue on the current state
    BuilderCatalogue(Option<u16>),
    /// random whole-record byte faults, derived from the explicit sub-seed
    ByteFaults(u64),
    /// F8: two move sequences the model says reconverge; live board continues along the first
    Fork(Vec<MMove>, Vec<MMove>),
    /// C13 pair probes at the current state (pairs built through text from the model)
    SamePos,
    /// C20 reader under damaged SAN strings, mutations derived from the explicit sub-seed
    SanFuzz(u64),
    /// offer a batch of synthesised (mostly unsound) states to parser and builder (C06/C09),
    /// derived from the explicit sub-seed
    OfferSynth(u64),
}

#[derive(Clone, Debug)]
pub struct Trace {
    pub boot: Boot,
    pub ops: Vec<Op>,
}

fn moves_text(v: &[MMove]) -> String {
    if v.is_empty() {
        "-".to_string()
    } else {
        v.iter().map(|m| m.text()).collect::<Vec<_>>().join(",")
    }
}

fn parse_moves(s: &str) -> Option<Vec<MMove>> {
    if s == "-" {
        return Some(vec![]);
    }
    s.split(',').map(MMove::parse).collect()
}

impl Op {
    pub fn text(&self) -> String {
        match self {
            Op::Play(m, v) => format!("play {} {}", m.text(), v.name()),
            Op::Null => "null".to_string(),
            Op::Request(m, v) => format!("request {} {}", m.text(), v.name()),
            Op::Restart(r) => format!("restart {}", r.name()),
            Op::Clock(h, n) => format!(
                "clock {} {}",
                h.map_or("-".to_string(), |x| x.to_string()),
                n.map_or("-".to_string(), |x| x.to_string())
            ),
            Op::RestartEdited(h, n) => format!("restart-edited {} {}", h, n),
            Op::Mask(m, k) => format!("mask {:016x} {}", m, k.map_or("-".to_string(), |x| x.to_string())),
            Op::Sweep => "sweep".to_string(),
            Op::TextCatalogue(i) => format!("text-catalogue {}", i.map_or("all".to_string(), |x| x.to_string())),
            Op::BuilderCatalogue(i) => format!("builder-catalogue {}", i.map_or("all".to_string(), |x| x.to_string())),
            Op::ByteFaults(s) => format!("byte-faults {}", s),
            Op::Fork(a, b) => format!("fork {} {}", moves_text(a), moves_text(b)),
            Op::SamePos => "samepos".to_string(),
            Op::SanFuzz(s) => format!("san-fuzz {}", s),
            Op::OfferSynth(s) => format!("offer-synth {}", s),
        }
    }

    pub fn parse(line: &str) -> Option<Op> {
        let w: Vec<&str> = line.split_whitespace().collect();
        let opt_u = |s: &str| -> Option<Option<u64>> {
            if s == "-" {
                Some(None)
            } else {
                s.parse().ok().map(Some)
            }
        };
        Some(match (w.first().copied()?, w.len()) {
            ("play", 3) => Op::Play(MMove::parse(w[1])?, Via::parse(w[2])?),
            ("null", 1) => Op::Null,
            ("request", 3) => Op::Request(MMove::parse(w[1])?, Via::parse(w[2])?),
            ("restart", 2) => Op::Restart(Route::parse(w[1])?),
            ("clock", 3) => Op::Clock(opt_u(w[1])?.map(|x| x as u8), opt_u(w[2])?.map(|x| x as u16)),
            ("restart-edited", 3) => Op::RestartEdited(w[1].parse().ok()?, w[2].parse().ok()?),
            ("mask", 3) => Op::Mask(u64::from_str_radix(w[1], 16).ok()?, opt_u(w[2])?.map(|x| x as u8)),
            ("sweep", 1) => Op::Sweep,
            ("text-catalogue", 2) => Op::TextCatalogue(if w[1] == "all" { None } else { Some(w[1].parse().ok()?) }),
            ("builder-catalogue", 2) => Op::BuilderCatalogue(if w[1] == "all" { None } else { Some(w[1].parse().ok()?) }),
            ("byte-faults", 2) => Op::ByteFaults(w[1].parse().ok()?),
            ("fork", 3) => Op::Fork(parse_moves(w[1])?, parse_moves(w[2])?),
            ("samepos", 1) => Op::SamePos,
            ("san-fuzz", 2) => Op::SanFuzz(w[1].parse().ok()?),
            ("offer-synth", 2) => Op::OfferSynth(w[1].parse().ok()?),
            _ => return None,
        })
    }

    /// short fault-kind label for the evidence counters (None = ordinary operation)
    pub fn fault_kind(&self) -> Option<&'static str> {
        Some(match self {
            Op::Play(..) | Op::Null | Op::Sweep | Op::SamePos => return None,
            Op::Request(_, Via::Play) => "F2_panicking_play",
            Op::Request(..) => "F1_rejected_request",
            Op::Restart(Route::Builder) => "F5_restart_builder",
            Op::Restart(_) => "F4_restart_text",
            Op::Clock(..) | Op::RestartEdited(..) => "F9_clock_jump",
            Op::Mask(_, Some(_)) => "F3_listener_abort",
            Op::Mask(_, None) => return None,
            Op::TextCatalogue(_) | Op::ByteFaults(_) => "F6_text_corruption",
            Op::BuilderCatalogue(_) | Op::OfferSynth(_) => "F7_builder_corruption",
            Op::Fork(..) => "F8_reconverging_fork",
            Op::SanFuzz(_) => "F6s_damaged_san",
        })
    }
}

impl Boot {
    pub fn text(&self) -> String {
        match self {
            Boot::Start(w, b) => format!("start {} {}", w, b),
            Boot::Text(t, r) => format!("text {} {}", r.name(), t),
        }
    }
    pub fn parse(line: &str) -> Option<Boot> {
        let mut it = line.splitn(3, ' ');
        match it.next()? {
            "start" => Some(Boot::Start(it.next()?.parse().ok()?, it.next()?.parse().ok()?)),
            "text" => {
                let r = Route::parse(it.next()?)?;
                Some(Boot::Text(it.next()?.to_string(), r))
            }
            _ => None,
        }
    }
}

pub struct ReplayFile {
    pub property: String,
    pub class: String,
    pub backend: String,
    pub profile: String,
    pub seed: u64,
    pub run: u64,
    pub detail: String,
    pub trace: Trace,
}

impl ReplayFile {
    pub fn render(&self) -> String {
        let mut s = String::new();
        s.push_str("cozy-sim-replay v1\n");
        s.push_str(&format!("property {}\n", self.property));
        s.push_str(&format!("class {}\n", self.class));
        s.push_str(&format!("backend {}\n", self.backend));
        s.push_str(&format!("profile {}\n", self.profile));
        s.push_str(&format!("seed {}\n", self.seed));
        s.push_str(&format!("run {}\n", self.run));
        for l in self.detail.lines() {
            s.push_str(&format!("# {}\n", l));
        }
        s.push_str(&format!("boot {}\n", self.trace.boot.text()));
        for op in &self.trace.ops {
            s.push_str(&format!("op {}\n", op.text()));
        }
        s.push_str("end\n");
        s
    }

    pub fn parse(text: &str) -> Result<ReplayFile, String> {
        let mut lines = text.lines();
        if lines.next() != Some("cozy-sim-replay v1") {
            return Err("not a cozy-sim replay file".into());
        }
        let mut rf = ReplayFile {
            property: String::new(),
            class: String::new(),
            backend: "magic".into(),
            profile: "release".into(),
            seed: 0,
            run: 0,
            detail: String::new(),
            trace: Trace { boot: Boot::Start(518, 518), ops: vec![] },
        };
        let mut have_boot = false;
        for l in lines {
            if l.starts_with('#') || l.trim().is_empty() {
                continue;
            }
            let (k, v) = l.split_once(' ').unwrap_or((l, ""));
            match k {
                "property" => rf.property = v.to_string(),
                "class" => rf.class = v.to_string(),
                "backend" => rf.backend = v.to_string(),
                "profile" => rf.profile = v.to_string(),
                "seed" => rf.seed = v.parse().map_err(|_| "bad seed")?,
                "run" => rf.run = v.parse().map_err(|_| "bad run")?,
                "boot" => {
                    rf.trace.boot = Boot::parse(v).ok_or_else(|| format!("bad boot line: {}", l))?;
                    have_boot = true;
                }
                "op" => rf.trace.ops.push(Op::parse(v).ok_or_else(|| format!("bad op line: {}", l))?),
                "end" => break,
                _ => return Err(format!("unknown line: {}", l)),
            }
        }
        if !have_boot || rf.property.is_empty() {
            return Err("missing boot or property".into());
        }
        Ok(rf)
    }
}
