//! Execution of a trace against the real library and the model in lock-step.
//! A check for property P evaluates only P's oracles; a divergence in a call P does not own
//! ends the run as a *foreign abort* (counted, never a violation of P).

use crate::model::*;
use crate::ops::*;
use crate::real::*;
use crate::stats::Stats;
use cozy_chess::*;

#[derive(Clone, Copy, PartialEq, Eq, Debug, PartialOrd, Ord)]
pub enum Prop {
    C01,
    C02,
    C03,
    C04,
    C06,
    C07,
    C08,
    C09,
    C10,
    C12,
    C13,
    C14,
    C15,
    C16,
    C20,
}

impl Prop {
    pub const ALL: [Prop; 15] = [
        Prop::C01, Prop::C02, Prop::C03, Prop::C04, Prop::C06, Prop::C07, Prop::C08, Prop::C09,
        Prop::C10, Prop::C12, Prop::C13, Prop::C14, Prop::C15, Prop::C16, Prop::C20,
    ];
    pub fn name(self) -> &'static str {
        match self {
            Prop::C01 => "C01", Prop::C02 => "C02", Prop::C03 => "C03", Prop::C04 => "C04",
            Prop::C06 => "C06", Prop::C07 => "C07", Prop::C08 => "C08", Prop::C09 => "C09",
            Prop::C10 => "C10", Prop::C12 => "C12", Prop::C13 => "C13", Prop::C14 => "C14",
            Prop::C15 => "C15", Prop::C16 => "C16", Prop::C20 => "C20",
        }
    }
    pub fn parse(s: &str) -> Option<Prop> {
        Prop::ALL.iter().copied().find(|p| p.name() == s)
    }
    pub fn code(self) -> u64 {
        self.name()[1..].parse().unwrap()
    }
}

#[derive(Clone, Debug)]
pub struct Violation {
    pub class: String,
    pub step: usize,
    pub detail: String,
}

#[derive(Clone, Debug)]
pub enum Stop {
    Violation(Violation),
    /// the trace is not applicable (shrinker candidates, hand-edited replay files)
    Invalid(String),
    /// divergence in a call this property does not own
    Foreign(String),
    /// a synthesised boot state was refused by the library (legitimate, counted)
    BootRejected,
}

pub type R<T = ()> = Result<T, Stop>;

pub struct World {
    pub real: Board,
    pub model: Model,
    pub legal: Vec<MMove>,
    /// reached by legal moves only from a start-position constructor (C06 acceptance domain)
    pub pure_play: bool,
    pub boot_key: u64,
    /// per-run table: position key -> hash seen (C10)
    pub hash_seen: std::collections::BTreeMap<u64, u64>,
    /// recent boards with their canonical text (C07 eq <=> text)
    pub ring: Vec<(Board, String)>,
    /// the last synchronisation re-adopted the model from a diverged board (premises of follow-up
    /// comparisons with the pre-image no longer hold)
    pub just_readopted: bool,
}

pub struct Ctx<'a> {
    pub prop: Prop,
    pub known: &'a [String],
    pub stats: &'a mut Stats,
    pub step: usize,
}

impl<'a> Ctx<'a> {
    /// Report a violation of the property under check. Returns Ok(()) when the class is a
    /// listed known finding (counted, run continues), else the Stop.
    pub fn fail(&mut self, class: String, detail: String) -> R {
        debug_assert!(class.starts_with(self.prop.name()));
        if self.known.iter().any(|k| *k == class) {
            *self.stats.known_matched.entry(class).or_default() += 1;
            return Ok(());
        }
        Err(Stop::Violation(Violation { class, step: self.step, detail }))
    }

    pub fn foreign(&mut self, what: &str) -> Stop {
        Stop::Foreign(what.to_string())
    }

    #[inline]
    pub fn hit(&mut self, name: &str) {
        self.stats.hit(name);
    }
}

pub fn move_kind(m: &Model, mv: MMove) -> &'static str {
    match m.sq[mv.from as usize] {
        None => "empty-origin",
        Some((_, c)) if c != m.stm => "enemy-origin",
        Some((k, _)) => {
            if mv.promo == PAWN + 1 || mv.promo == KING + 1 {
                return "promo-to-pawn-or-king";
            }
            if mv.promo != 0 && k != PAWN {
                return "promo-by-nonpawn";
            }
            if m.is_castle(mv) {
                return "castle";
            }
            match k {
                PAWN => {
                    if m.is_ep_capture(mv) && (file_of(mv.from) - file_of(mv.to)).abs() == 1 {
                        "ep"
                    } else if mv.promo != 0 {
                        "promotion"
                    } else {
                        "pawn"
                    }
                }
                KING => "king",
                _ => "piece",
            }
        }
    }
}

fn diff_moves(a: &[MMove], b: &[MMove]) -> (Vec<MMove>, Vec<MMove>) {
    (a.iter().filter(|x| !b.contains(x)).copied().collect(), b.iter().filter(|x| !a.contains(x)).copied().collect())
}

fn list(v: &[MMove]) -> String {
    v.iter().map(|m| m.text()).collect::<Vec<_>>().join(",")
}

impl World {
    fn new(real: Board, model: Model, pure_play: bool) -> World {
        let legal = model.legal_moves();
        let boot_key = model.key();
        World { real, model, legal, pure_play, boot_key, hash_seen: Default::default(), ring: vec![], just_readopted: false }
    }

    pub fn refresh(&mut self) {
        self.legal = self.model.legal_moves();
    }

    /// Does the real board denote the model state? (all accessor-visible fields incl. clocks)
    fn in_sync(&self) -> bool {
        adopt(&self.real) == self.model
    }

    pub fn sync_or(&mut self, cx: &mut Ctx, owners: &[Prop], class_suffix: &str, what: &str) -> R {
        if self.in_sync() {
            return Ok(());
        }
        let got = adopt(&self.real);
        let detail = format!("{}: expected {} got {}", what, self.model.to_fen(true), got.to_fen(true));
        if owners.contains(&cx.prop) {
            // name the first differing field so that different defects get different classes
            let field = if got.sq != self.model.sq {
                "placement"
            } else if got.stm != self.model.stm {
                "side"
            } else if got.rights != self.model.rights {
                "rights"
            } else if got.ep != self.model.ep {
                "en-passant"
            } else if got.half != self.model.half {
                "halfmove"
            } else {
                "fullmove"
            };
            cx.fail(format!("{}/{}/{}", cx.prop.name(), class_suffix, field), detail)?;
            // known finding: the states have diverged, nothing further can be compared
            Err(Stop::Foreign("diverged after known finding".into()))
        } else {
            // Not this property's operation. The board is still one the library handed out after a legal
            // history, so this property's own oracles apply to it as it stands. C06 and C07 can be judged
            // on the real board alone; for the rest the model is re-adopted from the board (when the board
            // is playable at all: consistent bitboards, one king per side) and the run continues on the
            // position the board actually denotes.
            if cx.prop == Prop::C06 {
                crate::oracle::check_sound(&self.real, "handed-out", cx)?;
            }
            if cx.prop == Prop::C07 {
                match guard(|| (format!("{:#}", self.real), format!("{}", self.real))) {
                    Err(()) => cx.fail("C07/panic/format".into(), format!("Display panicked on the board reached {}", what))?,
                    Ok((text, _)) => match parse_via(&text, Entry::Sfen) {
                        Ok(Ok(b)) => {
                            if b != self.real {
                                cx.fail("C07/roundtrip-differs/shredder-sfen".into(), format!("{} reparsed to a different board ({})", text, what))?;
                            }
                        }
                        Ok(Err(e)) => cx.fail("C07/reparse-failed/shredder-sfen".into(), format!("{} -> {} ({})", text, fen_err_name(&e), what))?,
                        Err(()) => cx.fail("C07/panic/shredder-sfen".into(), text)?,
                    },
                }
            }
            // Only a *sound* position is re-adopted: the other properties quantify over accepted boards, and
            // "legal move", "canonical SAN" etc. are not defined by their statements on, say, a right without
            // a rook. (C06 and C07 have had their say on the board as it stands just above.)
            let playable = bitboards_consistent(&self.real) && got.unsound().is_none();
            if playable {
                cx.hit("readopted_after_foreign_divergence");
                self.model = got;
                self.refresh();
                self.pure_play = false;
                self.just_readopted = true;
                return Ok(());
            }
            Err(cx.foreign(&format!("desync {}", what)))
        }
    }
}

// ------------------------------------------------------------------------------------ boot

pub fn boot(b: &Boot, cx: &mut Ctx) -> R<World> {
    match b {
        Boot::Start(w, bl) => {
            if *w >= 960 || *bl >= 960 {
                return Err(Stop::Invalid("scharnagl out of range".into()));
            }
            // the thin wrappers are exercised too: equal indices go through chess960_startpos, and 518/518
            // additionally through startpos() and Default
            let real = if w == bl {
                let r = guard(|| Board::chess960_startpos(*w)).map_err(|_| cx.foreign("start constructor panicked"))?;
                if *w == 518 {
                    cx.hit("boot_startpos_and_default_constructors");
                    let extra = guard(|| (Board::startpos(), Board::default())).map_err(|_| cx.foreign("start constructor panicked"))?;
                    if cx.prop == Prop::C06 {
                        crate::oracle::check_sound(&extra.0, "handed-out", cx)?;
                        crate::oracle::check_sound(&extra.1, "handed-out", cx)?;
                    }
                    if cx.prop == Prop::C01 && cx.step == 0 {
                        // run the history on the Default board
                        extra.1
                    } else {
                        extra.0
                    }
                } else {
                    cx.hit("boot_chess960_startpos_constructor");
                    r
                }
            } else {
                guard(|| Board::double_chess960_startpos(*w, *bl)).map_err(|_| cx.foreign("start constructor panicked"))?
            };
            let model = adopt(&real);
            Ok(World::new(real, model, true))
        }
        Boot::Text(t, route) => {
            let (model, _) = decode(t, false).ok_or_else(|| Stop::Invalid(format!("boot record not canonical: {}", t)))?;
            if model.to_fen(true) != *t {
                return Err(Stop::Invalid(format!("boot record not canonical Shredder text: {}", t)));
            }
            if model.count(KING, 0) != 1 || model.count(KING, 1) != 1 {
                return Err(Stop::Invalid("boot record without both kings".into()));
            }
            if route.needs_plain() && !model.plain_expressible() {
                return Err(Stop::Invalid("plain route for inner-file rights".into()));
            }
            let res: Result<Result<Board, String>, ()> = match route {
                Route::Fen => parse_via(&model.to_fen(false), Entry::Fen).map(|r| r.map_err(|e| fen_err_name(&e).to_string())),
                Route::StrPlain => parse_via(&model.to_fen(false), Entry::FromStr).map(|r| r.map_err(|e| fen_err_name(&e).to_string())),
                Route::Sfen => parse_via(t, Entry::Sfen).map(|r| r.map_err(|e| fen_err_name(&e).to_string())),
                Route::StrShredder => parse_via(t, Entry::FromStr).map(|r| r.map_err(|e| fen_err_name(&e).to_string())),
                Route::Builder => {
                    let bb = builder_of(&model);
                    guard(|| bb.build()).map(|r| r.map_err(|e| builder_err_name(&e).to_string()))
                }
            };
            let owner = if *route == Route::Builder { Prop::C09 } else { Prop::C08 };
            let res = match res {
                Ok(r) => r,
                Err(()) => {
                    if cx.prop == owner || (cx.prop == Prop::C08 && *route != Route::Builder) {
                        cx.fail(format!("{}/panic/boot-{}", cx.prop.name(), route.name()), format!("constructor panicked on {}", t))?;
                    }
                    return Err(cx.foreign("constructor panicked at boot"));
                }
            };
            let unsound = model.unsound();
            match res {
                Err(_) => {
                    // a sound but unreachable state may be refused (C06 promises acceptance only
                    // for positions reached by legal play); an unsound one must be refused
                    Err(Stop::BootRejected)
                }
                Ok(real) => {
                    if let Some(d) = unsound {
                        if cx.prop == Prop::C06 {
                            cx.fail(format!("C06/unsound-accepted/{}", d), format!("{} accepted via {}", t, route.name()))?;
                        }
                        return Err(cx.foreign("unsound boot state accepted"));
                    }
                    let mut w = World::new(real, model, crate::gen::is_reachable_root(t));
                    w.sync_or(cx, &[owner], "denotation", &format!("boot via {}", route.name()))?;
                    Ok(w)
                }
            }
        }
    }
}

// ------------------------------------------------------------------------------ operations

/// Execute one operation. On Ok the world is in sync with the model again.
pub fn step(w: &mut World, op: &Op, cx: &mut Ctx) -> R {
    w.just_readopted = false;
    if let Some(k) = op.fault_kind() {
        cx.hit(k);
    }
    cx.stats.steps += 1;
    cx.stats.eat_str(&op.text());
    match op {
        Op::Play(mv, via) => {
            if !w.legal.contains(mv) {
                return Err(Stop::Invalid(format!("{} not legal in the model at {}", mv.text(), w.model.to_fen(true))));
            }
            play_probes(w, *mv, cx);
            let rm = to_real(*mv);
            let mut expect = w.model.clone();
            expect.make(*mv);
            if cx.prop == Prop::C02 || cx.prop == Prop::C15 {
                crate::oracle::play_oracles(w, *mv, &expect, cx)?;
            }
            let mut next = w.real.clone();
            let ok = match via {
                Via::Play => guard(|| next.play(rm)).is_ok(),
                Via::TryPlay => matches!(guard(|| next.try_play(rm)), Ok(Ok(()))),
                Via::Unchecked => guard(|| next.play_unchecked(rm)).is_ok(),
            };
            if !ok {
                let what = format!("{} of legal move {} failed at {}", via.name(), mv.text(), w.model.to_fen(true));
                if cx.prop == Prop::C15 && *via != Via::Unchecked {
                    cx.fail(format!("C15/legal-move-refused/{}", via.name()), what.clone())?;
                }
                if cx.prop == Prop::C02 && *via == Via::Unchecked {
                    cx.fail("C02/panic/play_unchecked".into(), what.clone())?;
                }
                return Err(cx.foreign(&what));
            }
            w.real = next;
            w.model = expect;
            w.refresh();
            cx.stats.plies += 1;
            w.sync_or(cx, &[Prop::C02], "successor", &format!("after {}", mv.text()))?;
            crate::oracle::observe(w, cx)
        }
        Op::Null => {
            let rn = guard(|| w.real.null_move());
            let mn = w.model.null();
            let rn = match rn {
                Ok(x) => x,
                Err(()) => {
                    if cx.prop == Prop::C14 {
                        cx.fail("C14/panic".into(), format!("null_move panicked at {}", w.model.to_fen(true)))?;
                    }
                    return Err(cx.foreign("null_move panicked"));
                }
            };
            if rn.is_some() != mn.is_some() {
                let what = format!("null move offered={} expected={} at {}", rn.is_some(), mn.is_some(), w.model.to_fen(true));
                if cx.prop == Prop::C14 {
                    cx.fail(format!("C14/availability/{}", if mn.is_some() { "refused-though-not-in-check" } else { "offered-in-check" }), what.clone())?;
                }
                return Err(cx.foreign(&what));
            }
            match (rn, mn) {
                (Some(rn), Some(mn)) => {
                    let pins_before = w.real.pinned().0;
                    w.real = rn;
                    w.model = mn;
                    w.refresh();
                    w.pure_play = false;
                    cx.hit("null_move_played");
                    if w.real.pinned().0 != pins_before {
                        cx.hit("probe_null_move_changed_pin_set");
                    }
                    w.sync_or(cx, &[Prop::C14], "null-successor", "after null move")?;
                    crate::oracle::observe(w, cx)
                }
                _ => {
                    cx.hit("F10_null_refused");
                    Ok(())
                }
            }
        }
        Op::Request(mv, via) => crate::oracle::request(w, *mv, *via, cx),
        Op::Restart(route) => crate::oracle::restart(w, *route, cx),
        Op::Clock(h, n) => {
            if h.map_or(false, |x| x > 100) || *n == Some(0) {
                return Err(Stop::Invalid("clock value outside the setter's domain".into()));
            }
            let before = w.real.clone();
            let mut next = w.real.clone();
            let r = guard(|| {
                if let Some(h) = h {
                    next.set_halfmove_clock(*h);
                }
                if let Some(n) = n {
                    next.set_fullmove_number(*n);
                }
            });
            if r.is_err() {
                return Err(cx.foreign("clock setter panicked"));
            }
            w.real = next;
            if let Some(h) = h {
                w.model.half = *h;
            }
            if let Some(n) = n {
                w.model.full = *n;
            }
            w.pure_play = false;
            w.sync_or(cx, &[], "", "after clock setters")?;
            if !w.just_readopted {
                crate::oracle::after_clock_change(w, &before, "setter", cx)?;
            }
            crate::oracle::observe(w, cx)
        }
        Op::RestartEdited(h, n) => {
            if *h > 100 || *n == 0 {
                return Err(Stop::Invalid("edited clock outside range".into()));
            }
            let mut m2 = w.model.clone();
            m2.half = *h;
            m2.full = *n;
            let text = m2.to_fen(true);
            let rec = match parse_via(&text, Entry::Sfen) {
                Ok(Ok(b)) => b,
                Ok(Err(_)) => {
                    cx.hit("restart_refused_unreachable");
                    return Ok(());
                }
                Err(()) => {
                    if cx.prop == Prop::C08 {
                        cx.fail("C08/panic/canonical-record".into(), text.clone())?;
                    }
                    return Err(cx.foreign("parser panicked on canonical record"));
                }
            };
            let before = std::mem::replace(&mut w.real, rec);
            w.model = m2;
            w.pure_play = false;
            w.sync_or(cx, &[Prop::C08], "denotation", "after restart from edited record")?;
            if !w.just_readopted {
                crate::oracle::after_clock_change(w, &before, "edited-record", cx)?;
            }
            crate::oracle::observe(w, cx)
        }
        Op::Mask(mask, k) => {
            if cx.prop == Prop::C16 {
                crate::oracle::mask_oracle(w, *mask, *k, cx)?;
            }
            Ok(())
        }
        Op::Sweep => {
            match cx.prop {
                Prop::C04 => crate::oracle::sweep_is_legal(w, cx),
                Prop::C15 => crate::oracle::sweep_try_play(w, cx),
                _ => Ok(()),
            }
        }
        Op::TextCatalogue(only) => crate::faults::text_catalogue(w, *only, cx),
        Op::BuilderCatalogue(only) => crate::faults::builder_catalogue(w, *only, cx),
        Op::ByteFaults(seed) => crate::faults::byte_faults(w, *seed, cx),
        Op::OfferSynth(seed) => crate::faults::offer_synth(*seed, cx),
        Op::Fork(a, b) => crate::oracle::fork(w, a, b, cx),
        Op::SamePos => {
            if cx.prop == Prop::C13 {
                crate::oracle::same_pos_probes(w, cx)?;
            }
            Ok(())
        }
        Op::SanFuzz(seed) => {
            if cx.prop == Prop::C20 {
                crate::oracle::san_fuzz(w, *seed, cx)?;
            }
            Ok(())
        }
    }
}

fn play_probes(w: &World, mv: MMove, cx: &mut Ctx) {
    let m = &w.model;
    let (k, _) = m.sq[mv.from as usize].unwrap();
    let us = m.stm as usize;
    if m.is_castle(mv) {
        let wing = if file_of(mv.to) > file_of(mv.from) { 0 } else { 1 };
        cx.hit(if wing == 0 { "probe_castle_short_played" } else { "probe_castle_long_played" });
        let kd = if wing == 0 { 6 } else { 2 };
        let rd = if wing == 0 { 5 } else { 3 };
        if file_of(mv.from) == kd {
            cx.hit("probe_castle_king_stays");
        }
        if file_of(mv.to) == rd {
            cx.hit("probe_castle_rook_stays");
        }
        if file_of(mv.from) == rd && file_of(mv.to) == kd {
            cx.hit("probe_castle_king_rook_swap");
        }
        return;
    }
    if m.is_ep_capture(mv) {
        cx.hit("probe_ep_capture_played");
    }
    if mv.promo != 0 {
        cx.hit(["", "", "probe_promo_knight", "probe_promo_bishop", "probe_promo_rook", "probe_promo_queen", ""][mv.promo as usize]);
    }
    if k == PAWN && (rank_of(mv.to) - rank_of(mv.from)).abs() == 2 {
        cx.hit("probe_double_push_played");
    }
    let their_back = if m.stm == WHITE { 7 } else { 0 };
    if m.sq[mv.to as usize].is_some() && rank_of(mv.to) == their_back {
        let them = us ^ 1;
        if m.rights[them].iter().any(|r| *r == Some(file_of(mv.to) as u8)) && matches!(m.sq[mv.to as usize], Some((ROOK, _))) {
            cx.hit("probe_right_lost_by_rook_capture");
            if mv.promo != 0 {
                cx.hit("probe_promotion_capture_on_right_square");
            }
        }
    }
    if k == KING && m.rights[us].iter().any(|r| r.is_some()) {
        cx.hit("probe_right_lost_by_king_move");
    }
    let back = if m.stm == WHITE { 0 } else { 7 };
    if k == ROOK && rank_of(mv.from) == back && m.rights[us].iter().any(|r| *r == Some(file_of(mv.from) as u8)) {
        cx.hit("probe_right_lost_by_rook_move");
    }
    if k != PAWN && !m.is_capture(mv) {
        if m.half == 99 {
            cx.hit("probe_halfmove_reaches_100");
        }
        if m.half == 100 {
            cx.hit("probe_halfmove_saturated_at_100");
        }
    }
    if m.stm == BLACK && m.full == 65535 {
        cx.hit("probe_fullmove_saturated_at_65535");
    }
}

/// Run a whole trace. Returns the number of executed ops on a clean finish.
pub fn run_trace(t: &Trace, cx: &mut Ctx) -> R<usize> {
    cx.step = 0;
    let mut w = boot(&t.boot, cx)?;
    crate::oracle::observe(&mut w, cx)?;
    for (i, op) in t.ops.iter().enumerate() {
        cx.step = i + 1;
        step(&mut w, op, cx)?;
    }
    Ok(t.ops.len())
}

pub(crate) fn moves_diff_text(expected: &[MMove], got: &[MMove]) -> (Vec<MMove>, Vec<MMove>, String) {
    let (missing, extra) = diff_moves(expected, got);
    let s = format!("missing [{}] extra [{}]", list(&missing), list(&extra));
    (missing, extra, s)
}
