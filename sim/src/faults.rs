//! F6 / F7 execution: applying the corruption catalogues to the durable form of the current
//! state and judging the outcome (C08, C09, and C06 for anything that gets accepted).

use crate::catalogue::*;
use crate::exec::*;
use crate::model::*;
use crate::oracle::check_sound;
use crate::real::*;
use crate::rng::Rng;
use crate::synth;
use cozy_chess::*;

fn eval_text(case: &TextCase, entry: Entry, cx: &mut Ctx) -> R {
    let text = &case.text;
    cx.hit("corrupted_records_parsed");
    let shown: String = if text.len() > 160 { format!("{}…({} bytes)", &text[..text.char_indices().nth(120).map_or(text.len(), |x| x.0)], text.len()) } else { text.clone() };
    match parse_via(text, entry) {
        Err(()) => {
            if cx.prop == Prop::C08 {
                cx.fail(format!("C08/panic/{}", case.name), format!("{} panicked on {:?}", entry.name(), shown))?;
            }
            Ok(())
        }
        Ok(Ok(board)) => {
            cx.hit("corrupted_records_accepted");
            if cx.prop == Prop::C06 {
                check_sound(&board, "accepted-from-text", cx)?;
                return Ok(());
            }
            if cx.prop != Prop::C08 {
                return Ok(());
            }
            match case.expect {
                Expect::Variant(_) | Expect::Reject => {
                    cx.fail(format!("C08/accepted/{}", case.name), format!("{} accepted {:?} as {:#}", entry.name(), shown, board))?;
                }
                Expect::Total => {}
            }
            if !structurally_ok(text) {
                cx.fail(format!("C08/accepted-bad-structure/{}", case.name), format!("{} accepted {:?}", entry.name(), shown))?;
            }
            if let Some((dm, notation)) = decode(text, true) {
                // plain letters are read as the h/a files by the decoder; where that reading is not supported
                // by the position another reading (X-FEN: outermost rook) is possible and nothing is asserted
                let other_reading_possible = notation == Notation::Plain && dm.defects().iter().any(|d| d.0 == Aspect::Castling);
                if !other_reading_possible && adopt(&board) != dm {
                    cx.fail(format!("C08/denotation/{}", case.name), format!("{} read {:?} as {:#}", entry.name(), shown, board))?;
                }
            }
            Ok(())
        }
        Ok(Err(e)) => {
            if cx.prop != Prop::C08 {
                return Ok(());
            }
            if let Expect::Variant(v) = case.expect {
                let got = fen_err_name(&e);
                if got != v {
                    cx.fail(format!("C08/wrong-field/{}", case.name), format!("{} on {:?}: {} instead of {}", entry.name(), shown, got, v))?;
                } else {
                    cx.hit("single_field_damage_named_correctly");
                }
            }
            Ok(())
        }
    }
}

pub fn text_catalogue(w: &World, only: Option<u16>, cx: &mut Ctx) -> R {
    if cx.prop != Prop::C08 && cx.prop != Prop::C06 {
        return Ok(());
    }
    let m = &w.model;
    for shredder in [false, true] {
        let mut applicable = shredder || m.plain_expressible();
        if applicable && cx.prop == Prop::C08 {
            // "a single field of an otherwise valid record": the premise needs the undamaged record to
            // be valid for the entry points used (a board the builder handed out may have none)
            let rec = m.to_fen(shredder);
            let e = if shredder { Entry::Sfen } else { Entry::Fen };
            if !matches!(parse_via(&rec, e), Ok(Ok(_))) || !matches!(parse_via(&rec, Entry::FromStr), Ok(Ok(_))) {
                cx.hit("catalogue_skipped_undamaged_record_not_accepted");
                applicable = false;
            }
        }
        let cases = if applicable { text_cases(m, shredder) } else { vec![] };
        // operator indices: plain block from 0, Shredder block from 1000
        let idx: u16 = if shredder { 1000 } else { 0 };
        for (i, c) in cases.iter().enumerate() {
            let my = idx + i as u16;
            if only.map_or(false, |o| o != my) {
                continue;
            }
            let Some(c) = c else {
                continue;
            };
            cx.stats.add(&format!("op_{}", c.name), 1);
            let entries: &[Entry] = if c.plain_entry_only {
                &[Entry::Fen]
            } else if shredder {
                &[Entry::Sfen, Entry::FromStr]
            } else {
                &[Entry::Fen, Entry::FromStr]
            };
            for e in entries {
                eval_text(c, *e, cx)?;
            }
        }
    }
    Ok(())
}

pub fn byte_faults(w: &World, seed: u64, cx: &mut Ctx) -> R {
    if cx.prop != Prop::C08 && cx.prop != Prop::C06 {
        return Ok(());
    }
    let mut rng = Rng::new(seed);
    let m = &w.model;
    let alphabet: Vec<char> = "pnbrqkPNBRQK12345678/ wb-KQkqAHahe36\t\n\0é🙂+x".chars().collect();
    for i in 0..48 {
        let shredder = i % 2 == 0 || !m.plain_expressible();
        let rec = m.to_fen(shredder);
        let mut bytes = rec.clone().into_bytes();
        let name: &'static str;
        match rng.below(5) {
            0 | 1 => {
                let k = rng.below(bytes.len() as u64) as usize;
                bytes[k] ^= 1 << rng.below(8);
                name = "W.bit-flip";
            }
            2 => {
                let k = rng.below(bytes.len() as u64) as usize;
                bytes.remove(k);
                name = "W.byte-deleted";
            }
            3 => {
                let mut cs: Vec<char> = rec.chars().collect();
                let k = rng.below(cs.len() as u64 + 1) as usize;
                cs.insert(k, *rng.pick(&alphabet));
                bytes = cs.into_iter().collect::<String>().into_bytes();
                name = "W.char-inserted";
            }
            _ => {
                let mut cs: Vec<char> = rec.chars().collect();
                let k = rng.below(cs.len() as u64) as usize;
                cs[k] = *rng.pick(&alphabet);
                bytes = cs.into_iter().collect::<String>().into_bytes();
                name = "W.char-replaced";
            }
        }
        let Ok(text) = String::from_utf8(bytes) else {
            cx.hit("byte_fault_not_utf8_discarded");
            continue;
        };
        cx.stats.add(&format!("op_{}", name), 1);
        let case = TextCase { name, text, expect: Expect::Total, plain_entry_only: false };
        for e in [Entry::Fen, Entry::Sfen, Entry::FromStr] {
            eval_text(&case, e, cx)?;
        }
    }
    // records assembled field by field from pools of well-formed and malformed tokens: strings
    // that are not a small edit away from the current record (still only totality and
    // "accept => valid structure, right denotation" are demanded)
    let placements: Vec<String> = {
        let mut v = vec![m.placement_text(), "8/8/8/8/8/8/8/8".to_string(), "k7/8/8/8/8/8/8/K7".to_string(), "kK6/8/8/8/8/8/8/8".to_string()];
        let other = synth::synth_any(&mut rng, (seed % 6) as usize);
        v.push(other.placement_text());
        v.push(format!("{}/8", other.placement_text()));
        v.push(other.placement_text().replacen('/', "", 1));
        v.push("rnbqkbnr/pppppppp/44/8/8/8/PPPPPPPP/RNBQKBNR".to_string());
        v.push("rnbqkbnr/pppppppp/17/8/8/8/PPPPPPPP/RNBQKBNR".to_string());
        v.push("rnbqkbnr/pppppppp/08/8/8/8/PPPPPPPP/RNBQKBNR".to_string());
        v.push("rnbqkbnr/pppppppp/8/8/8/8/PPPPPPPP/RNBQKBN".to_string());
        v.push("rnbqkbnr/pppppppp/8/8/8/8/PPPPPPPP/RNBQKBNRR".to_string());
        v.push("rnbqkbnr/pppppppp/8/8/8/8/PPPPPPPPP/RNBQKBNR".to_string());
        v.push("rnbqkbnr/pppppppp/９/8/8/8/PPPPPPPP/RNBQKBNR".to_string());
        v
    };
    let sides = ["w", "b", "W", "", "-", "wb", "ｗ"];
    let castles = ["-", "KQkq", "K", "q", "HAha", "Hh", "AH", "kqKQ", "KQkqK", "Kh", "", "x", "E", "e", "--"];
    let eps = ["-", "e3", "e6", "a3", "h6", "e4", "E3", "", "e", "e33", "-e3"];
    let numbers = ["0", "1", "50", "99", "100", "101", "255", "256", "65535", "65536", "+1", "-0", "007", "", "1e1", "0x1", " 1"];
    for _ in 0..24 {
        let text = format!(
            "{} {} {} {} {} {}",
            rng.pick(&placements),
            rng.pick(&sides),
            rng.pick(&castles),
            rng.pick(&eps),
            rng.pick(&numbers),
            rng.pick(&numbers)
        );
        cx.stats.add("op_W.assembled-record", 1);
        let case = TextCase { name: "W.assembled-record", text, expect: Expect::Total, plain_entry_only: false };
        for e in [Entry::Fen, Entry::Sfen, Entry::FromStr] {
            eval_text(&case, e, cx)?;
        }
    }
    Ok(())
}

fn real_builder(s: &BState) -> BoardBuilder {
    let mut bb = builder_of(&s.m);
    bb.en_passant = s.ep_sq.map(|q| Square::index(q as usize));
    bb
}

fn eval_builder(case: &BuilderCase, cx: &mut Ctx) -> R {
    let bb = real_builder(&case.state);
    let text = case.state.text();
    cx.hit("builder_states_offered");
    let rb = match guard(|| bb.build()) {
        Ok(r) => r,
        Err(()) => {
            if cx.prop == Prop::C09 {
                cx.fail(format!("C09/panic/{}", case.name), format!("build panicked on {}", text))?;
            }
            return Ok(());
        }
    };
    if cx.prop == Prop::C06 {
        if let Ok(b) = &rb {
            check_sound(b, "accepted-from-builder", cx)?;
        }
        // the same state as text
        if case.state.expressible() {
            if let Ok(Ok(b)) = parse_via(&text, Entry::Sfen) {
                check_sound(&b, "accepted-from-text", cx)?;
            }
        }
        return Ok(());
    }
    if cx.prop != Prop::C09 {
        return Ok(());
    }
    if !case.state.expressible() {
        cx.hit("inexpressible_states_offered");
        if rb.is_ok() {
            cx.fail(format!("C09/inexpressible-accepted/{}", case.name), format!("builder state ~ {} (right on the wrong side of the king) was built", text))?;
        }
    } else {
        let rp = match parse_via(&text, Entry::Sfen) {
            Ok(r) => r,
            Err(()) => return Ok(()), // parser panic is C08's business
        };
        cx.hit("parity_checks");
        match (&rb, &rp) {
            (Ok(x), Ok(y)) => {
                cx.hit("parity_both_accept");
                if x != y {
                    cx.fail(format!("C09/parity/boards-differ/{}", case.name), format!("{}: built {:#}, parsed {:#}", text, x, y))?;
                }
            }
            (Err(_), Err(_)) => cx.hit("parity_both_reject"),
            (Ok(x), Err(e)) => {
                let why = if x.checkers().len() >= 3 { "three-or-more-checkers" } else { "other" };
                cx.fail(format!("C09/parity/builder-accepts-parser-rejects/{}", why), format!("{} ({}): parser says {}", text, case.name, fen_err_name(e)))?;
            }
            (Err(e), Ok(_)) => {
                cx.fail(format!("C09/parity/builder-rejects-parser-accepts/{}", case.name), format!("{}: builder says {}", text, builder_err_name(e)))?;
            }
        }
    }
    if let Some(v) = case.expect {
        match &rb {
            Ok(_) => cx.fail(format!("C09/accepted/{}", case.name), format!("{} was built", text))?,
            Err(e) => {
                let got = builder_err_name(e);
                if got != v {
                    cx.fail(format!("C09/wrong-aspect/{}", case.name), format!("{}: {} instead of {}", text, got, v))?;
                } else {
                    cx.hit("single_aspect_damage_named_correctly");
                }
            }
        }
    }
    Ok(())
}

pub fn builder_catalogue(w: &World, only: Option<u16>, cx: &mut Ctx) -> R {
    if cx.prop != Prop::C09 && cx.prop != Prop::C06 {
        return Ok(());
    }
    for (i, c) in builder_cases(&w.model).iter().enumerate() {
        if only.map_or(false, |o| o as usize != i) {
            continue;
        }
        let Some(c) = c else { continue };
        cx.stats.add(&format!("op_{}", c.name), 1);
        eval_builder(c, cx)?;
    }
    Ok(())
}

/// Offer synthesised, randomly damaged states (mostly unsound) to the builder and the parser.
pub fn offer_synth(seed: u64, cx: &mut Ctx) -> R {
    if cx.prop != Prop::C09 && cx.prop != Prop::C06 {
        return Ok(());
    }
    let mut rng = Rng::new(seed);
    for _ in 0..24 {
        let theme = rng.below(synth::THEMES.len() as u64) as usize;
        let m = synth::synth_any(&mut rng, theme);
        let mut s = BState::of(&m);
        match rng.below(10) {
            0 => s.m.half = 90 + rng.below(60) as u8,
            1 => s.m.full = rng.below(2) as u16,
            2 => {
                s.m.ep = None;
                s.ep_sq = Some(rng.below(64) as u8);
            }
            3 => {
                let q = rng.below(64) as usize;
                s.m.sq[q] = Some((rng.below(6) as u8, rng.below(2) as u8));
            }
            4 => s.m.rights[rng.below(2) as usize][0] = Some(rng.below(8) as u8),
            5 => s.m.rights[rng.below(2) as usize][1] = Some(rng.below(8) as u8),
            _ => {}
        }
        if s.m.defects().is_empty() && s.ep_sq == BState::of(&s.m).ep_sq {
            cx.hit("synth_offered_sound");
        } else {
            cx.hit("synth_offered_unsound");
        }
        let case = BuilderCase { name: "synth", state: s, expect: None };
        eval_builder(&case, cx)?;
    }
    Ok(())
}
