//! Independent mailbox reference model of a chess / Chess960 position.
//! Written from the rules, shares no code with cozy-chess: at the API boundary enum values
//! are cast to integers. Squares are 0..64, a1 = 0, h1 = 7, a8 = 56.

pub const PAWN: u8 = 0;
pub const KNIGHT: u8 = 1;
pub const BISHOP: u8 = 2;
pub const ROOK: u8 = 3;
pub const QUEEN: u8 = 4;
pub const KING: u8 = 5;
pub const WHITE: u8 = 0;
pub const BLACK: u8 = 1;

#[derive(Clone, Copy, PartialEq, Eq, Debug, PartialOrd, Ord, Hash)]
pub struct MMove {
    pub from: u8,
    pub to: u8,
    /// 0 = none, else piece kind + 1 (so 1 = pawn ... 6 = king)
    pub promo: u8,
}

#[derive(Clone, PartialEq, Eq, Debug)]
pub struct Model {
    pub sq: [Option<(u8, u8)>; 64], // (kind, side)
    pub stm: u8,
    /// rights[side][0 = short, 1 = long] = rook file
    pub rights: [[Option<u8>; 2]; 2],
    pub ep: Option<u8>,
    pub half: u8,
    pub full: u16,
}

#[inline]
pub fn file_of(s: u8) -> i8 {
    (s & 7) as i8
}
#[inline]
pub fn rank_of(s: u8) -> i8 {
    (s >> 3) as i8
}
#[inline]
pub fn mk(f: i8, r: i8) -> Option<u8> {
    if (0..8).contains(&f) && (0..8).contains(&r) {
        Some((r * 8 + f) as u8)
    } else {
        None
    }
}

pub fn sq_name(s: u8) -> String {
    format!("{}{}", (b'a' + (s & 7)) as char, (b'1' + (s >> 3)) as char)
}

pub fn parse_sq(s: &str) -> Option<u8> {
    let b = s.as_bytes();
    if b.len() != 2 || !(b'a'..=b'h').contains(&b[0]) || !(b'1'..=b'8').contains(&b[1]) {
        return None;
    }
    Some((b[1] - b'1') * 8 + (b[0] - b'a'))
}

pub const KIND_LOWER: [char; 6] = ['p', 'n', 'b', 'r', 'q', 'k'];
pub const KIND_UPPER: [char; 6] = ['P', 'N', 'B', 'R', 'Q', 'K'];

impl MMove {
    /// coordinate text: e2e4, e7e8q; promo letters may also be p / k (never legal)
    pub fn text(&self) -> String {
        let mut s = format!("{}{}", sq_name(self.from), sq_name(self.to));
        if self.promo != 0 {
            s.push(KIND_LOWER[(self.promo - 1) as usize]);
        }
        s
    }
    pub fn parse(s: &str) -> Option<MMove> {
        if !s.is_ascii() || (s.len() != 4 && s.len() != 5) {
            return None;
        }
        let from = parse_sq(&s[0..2])?;
        let to = parse_sq(&s[2..4])?;
        let promo = if s.len() == 5 {
            let c = s.as_bytes()[4] as char;
            KIND_LOWER.iter().position(|&k| k == c)? as u8 + 1
        } else {
            0
        };
        Some(MMove { from, to, promo })
    }
}

const KNIGHT_D: [(i8, i8); 8] = [(1, 2), (2, 1), (2, -1), (1, -2), (-1, -2), (-2, -1), (-2, 1), (-1, 2)];
const KING_D: [(i8, i8); 8] = [(0, 1), (1, 1), (1, 0), (1, -1), (0, -1), (-1, -1), (-1, 0), (-1, 1)];
const ROOK_D: [(i8, i8); 4] = [(0, 1), (1, 0), (0, -1), (-1, 0)];
const BISHOP_D: [(i8, i8); 4] = [(1, 1), (1, -1), (-1, -1), (-1, 1)];

/// Field groups for defect attribution (C06 / C08 / C09).
#[derive(Clone, Copy, PartialEq, Eq, Debug, PartialOrd, Ord)]
pub enum Aspect {
    Placement,
    Castling,
    EnPassant,
    Halfmove,
    Fullmove,
}

impl Model {
    pub fn empty() -> Self {
        Model { sq: [None; 64], stm: WHITE, rights: [[None; 2]; 2], ep: None, half: 0, full: 1 }
    }

    pub fn king_sq(&self, side: u8) -> Option<u8> {
        (0..64u8).find(|&s| self.sq[s as usize] == Some((KING, side)))
    }

    pub fn count(&self, kind: u8, side: u8) -> usize {
        self.sq.iter().filter(|&&x| x == Some((kind, side))).count()
    }

    pub fn count_side(&self, side: u8) -> usize {
        self.sq.iter().filter(|x| matches!(x, Some((_, c)) if *c == side)).count()
    }

    /// Position key without clocks (FNV-1a over placement, side, rights, ep).
    pub fn key(&self) -> u64 {
        let mut h: u64 = 0xcbf2_9ce4_8422_2325;
        let mut eat = |b: u8| {
            h ^= b as u64;
            h = h.wrapping_mul(0x0000_0100_0000_01B3);
        };
        for s in 0..64 {
            eat(match self.sq[s] {
                None => 0,
                Some((k, c)) => 1 + k + 6 * c,
            });
        }
        eat(self.stm);
        for c in 0..2 {
            for w in 0..2 {
                eat(self.rights[c][w].map_or(9, |f| f));
            }
        }
        eat(self.ep.map_or(9, |f| f));
        h
    }

    pub fn same_core(&self, o: &Model) -> bool {
        self.sq == o.sq && self.stm == o.stm && self.rights == o.rights && self.ep == o.ep
    }

    pub fn attacked_on(sq: &[Option<(u8, u8)>; 64], target: u8, by: u8) -> bool {
        !Self::attackers_on(sq, target, by).is_empty()
    }

    pub fn attackers_on(sq: &[Option<(u8, u8)>; 64], target: u8, by: u8) -> Vec<u8> {
        let mut out = vec![];
        let (f, r) = (file_of(target), rank_of(target));
        // a pawn of side `by` on (f±1, r-dir) attacks target, dir = +1 for white
        let dir: i8 = if by == WHITE { 1 } else { -1 };
        for df in [-1i8, 1] {
            if let Some(s) = mk(f + df, r - dir) {
                if sq[s as usize] == Some((PAWN, by)) {
                    out.push(s);
                }
            }
        }
        for (df, dr) in KNIGHT_D {
            if let Some(s) = mk(f + df, r + dr) {
                if sq[s as usize] == Some((KNIGHT, by)) {
                    out.push(s);
                }
            }
        }
        for (df, dr) in KING_D {
            if let Some(s) = mk(f + df, r + dr) {
                if sq[s as usize] == Some((KING, by)) {
                    out.push(s);
                }
            }
        }
        for (dirs, kind) in [(ROOK_D, ROOK), (BISHOP_D, BISHOP)] {
            for (df, dr) in dirs {
                let (mut cf, mut cr) = (f + df, r + dr);
                while let Some(s) = mk(cf, cr) {
                    if let Some((k, c)) = sq[s as usize] {
                        if c == by && (k == kind || k == QUEEN) {
                            out.push(s);
                        }
                        break;
                    }
                    cf += df;
                    cr += dr;
                }
            }
        }
        out
    }

    pub fn in_check(&self, side: u8) -> bool {
        match self.king_sq(side) {
            Some(k) => Self::attacked_on(&self.sq, k, side ^ 1),
            None => false,
        }
    }

    /// Enemy pieces attacking the mover's king.
    pub fn checkers(&self) -> u64 {
        let k = self.king_sq(self.stm).unwrap();
        Self::attackers_on(&self.sq, k, self.stm ^ 1).iter().fold(0u64, |a, &s| a | (1u64 << s))
    }

    /// Pieces of either colour standing alone between the mover's king and an enemy
    /// rook/bishop/queen aligned with it on a line that piece moves along.
    pub fn pinned(&self) -> u64 {
        let k = self.king_sq(self.stm).unwrap();
        let (f, r) = (file_of(k), rank_of(k));
        let mut out = 0u64;
        for (dirs, kind) in [(ROOK_D, ROOK), (BISHOP_D, BISHOP)] {
            for (df, dr) in dirs {
                let (mut cf, mut cr) = (f + df, r + dr);
                let mut between: Vec<u8> = vec![];
                while let Some(s) = mk(cf, cr) {
                    if let Some((kk, c)) = self.sq[s as usize] {
                        if c != self.stm && (kk == kind || kk == QUEEN) && between.len() == 1 {
                            out |= 1u64 << between[0];
                        }
                        between.push(s);
                        if between.len() > 1 {
                            break;
                        }
                    }
                    cf += df;
                    cr += dr;
                }
            }
        }
        out
    }

    fn pseudo(&self) -> Vec<MMove> {
        let mut v = Vec::with_capacity(64);
        let us = self.stm;
        for s in 0..64u8 {
            let Some((k, c)) = self.sq[s as usize] else { continue };
            if c != us {
                continue;
            }
            let (f, r) = (file_of(s), rank_of(s));
            match k {
                PAWN => {
                    let dir: i8 = if us == WHITE { 1 } else { -1 };
                    let start = if us == WHITE { 1 } else { 6 };
                    let last = if us == WHITE { 7 } else { 0 };
                    let push = |to: u8, v: &mut Vec<MMove>| {
                        if rank_of(to) == last {
                            for p in [KNIGHT, BISHOP, ROOK, QUEEN] {
                                v.push(MMove { from: s, to, promo: p + 1 });
                            }
                        } else {
                            v.push(MMove { from: s, to, promo: 0 });
                        }
                    };
                    if let Some(t) = mk(f, r + dir) {
                        if self.sq[t as usize].is_none() {
                            push(t, &mut v);
                            if r == start {
                                if let Some(t2) = mk(f, r + 2 * dir) {
                                    if self.sq[t2 as usize].is_none() {
                                        push(t2, &mut v);
                                    }
                                }
                            }
                        }
                    }
                    for df in [-1i8, 1] {
                        if let Some(t) = mk(f + df, r + dir) {
                            match self.sq[t as usize] {
                                Some((_, c2)) if c2 != us => push(t, &mut v),
                                None => {
                                    // en passant: target is the passed square of the ep file
                                    let ep_rank = if us == WHITE { 5 } else { 2 };
                                    if self.ep == Some(file_of(t) as u8) && rank_of(t) == ep_rank {
                                        v.push(MMove { from: s, to: t, promo: 0 });
                                    }
                                }
                                _ => {}
                            }
                        }
                    }
                }
                KNIGHT | KING => {
                    let d = if k == KNIGHT { KNIGHT_D } else { KING_D };
                    for (df, dr) in d {
                        if let Some(t) = mk(f + df, r + dr) {
                            match self.sq[t as usize] {
                                Some((_, c2)) if c2 == us => {}
                                _ => v.push(MMove { from: s, to: t, promo: 0 }),
                            }
                        }
                    }
                }
                _ => {
                    let dirs: &[(i8, i8)] = match k {
                        ROOK => &ROOK_D,
                        BISHOP => &BISHOP_D,
                        _ => &KING_D,
                    };
                    for &(df, dr) in dirs {
                        let (mut cf, mut cr) = (f + df, r + dr);
                        while let Some(t) = mk(cf, cr) {
                            match self.sq[t as usize] {
                                None => v.push(MMove { from: s, to: t, promo: 0 }),
                                Some((_, c2)) => {
                                    if c2 != us {
                                        v.push(MMove { from: s, to: t, promo: 0 });
                                    }
                                    break;
                                }
                            }
                            cf += df;
                            cr += dr;
                        }
                    }
                }
            }
        }
        v
    }

    /// Why castling on `wing` (0 short, 1 long) is refused, or Ok(move) (king -> own rook square).
    pub fn castle_status(&self, wing: usize) -> Result<MMove, &'static str> {
        let us = self.stm;
        let rf = self.rights[us as usize][wing].ok_or("no-right")?;
        let back: i8 = if us == WHITE { 0 } else { 7 };
        let k = self.king_sq(us).ok_or("no-king")?;
        if rank_of(k) != back {
            return Err("king-off-back-rank");
        }
        let rook = mk(rf as i8, back).ok_or("bad-file")?;
        if self.sq[rook as usize] != Some((ROOK, us)) {
            return Err("no-rook");
        }
        let kd = mk(if wing == 0 { 6 } else { 2 }, back).unwrap();
        let rd = mk(if wing == 0 { 5 } else { 3 }, back).unwrap();
        let span = |a: u8, b: u8| -> Vec<u8> {
            let (lo, hi) = (a.min(b), a.max(b));
            (lo..=hi).collect()
        };
        // every square on the king's and the rook's path (ends included) vacant apart from that king and rook
        for s in span(k, kd).into_iter().chain(span(rook, rd)) {
            if s != k && s != rook && self.sq[s as usize].is_some() {
                return Err("blocked");
            }
        }
        if Self::attacked_on(&self.sq, k, us ^ 1) {
            return Err("in-check");
        }
        // squares the king crosses (king lifted, rook in place)
        let mut lifted = self.sq;
        lifted[k as usize] = None;
        for s in span(k, kd) {
            if s == k {
                continue;
            }
            if Self::attacked_on(&lifted, s, us ^ 1) {
                return Err("path-attacked");
            }
        }
        // final position: this is what covers "the rook was shielding the king"
        let mut fin = self.sq;
        fin[k as usize] = None;
        fin[rook as usize] = None;
        fin[kd as usize] = Some((KING, us));
        fin[rd as usize] = Some((ROOK, us));
        if Self::attacked_on(&fin, kd, us ^ 1) {
            return Err("rook-shielded");
        }
        Ok(MMove { from: k, to: rook, promo: 0 })
    }

    pub fn legal_moves(&self) -> Vec<MMove> {
        let us = self.stm;
        let mut out = Vec::with_capacity(48);
        for m in self.pseudo() {
            let mut c = self.clone();
            c.apply_plain(m);
            if !c.in_check(us) {
                out.push(m);
            }
        }
        for wing in 0..2 {
            if let Ok(m) = self.castle_status(wing) {
                out.push(m);
            }
        }
        out.sort();
        out
    }

    pub fn is_castle(&self, m: MMove) -> bool {
        matches!(self.sq[m.from as usize], Some((KING, c)) if c == self.stm)
            && matches!(self.sq[m.to as usize], Some((ROOK, c)) if c == self.stm)
    }

    pub fn is_ep_capture(&self, m: MMove) -> bool {
        matches!(self.sq[m.from as usize], Some((PAWN, _)))
            && file_of(m.from) != file_of(m.to)
            && self.sq[m.to as usize].is_none()
    }

    pub fn is_capture(&self, m: MMove) -> bool {
        !self.is_castle(m) && (self.sq[m.to as usize].is_some() || self.is_ep_capture(m))
    }

    /// placement only (no castling), used for legality testing
    fn apply_plain(&mut self, m: MMove) {
        let (k, c) = self.sq[m.from as usize].unwrap();
        let is_ep = k == PAWN && file_of(m.from) != file_of(m.to) && self.sq[m.to as usize].is_none();
        self.sq[m.from as usize] = None;
        if is_ep {
            let victim = mk(file_of(m.to), rank_of(m.from)).unwrap();
            self.sq[victim as usize] = None;
        }
        let kind = if m.promo != 0 { m.promo - 1 } else { k };
        self.sq[m.to as usize] = Some((kind, c));
    }

    /// Full rule-correct successor for a legal move.
    pub fn make(&mut self, m: MMove) {
        let us = self.stm;
        let them = us ^ 1;
        let (k, _) = self.sq[m.from as usize].unwrap();
        let back: i8 = if us == WHITE { 0 } else { 7 };
        let their_back: i8 = 7 - back;
        let castle = self.is_castle(m);
        let capture = !castle
            && (self.sq[m.to as usize].is_some() || (k == PAWN && file_of(m.from) != file_of(m.to)));
        let mut new_ep = None;
        if castle {
            let wing = if file_of(m.to) > file_of(m.from) { 0 } else { 1 };
            let kd = mk(if wing == 0 { 6 } else { 2 }, back).unwrap();
            let rd = mk(if wing == 0 { 5 } else { 3 }, back).unwrap();
            self.sq[m.from as usize] = None;
            self.sq[m.to as usize] = None;
            self.sq[kd as usize] = Some((KING, us));
            self.sq[rd as usize] = Some((ROOK, us));
            self.rights[us as usize] = [None, None];
        } else {
            // capture on a right's square
            if self.sq[m.to as usize].is_some() && rank_of(m.to) == their_back {
                for w in 0..2 {
                    if self.rights[them as usize][w] == Some(file_of(m.to) as u8) {
                        self.rights[them as usize][w] = None;
                    }
                }
            }
            if k == KING {
                self.rights[us as usize] = [None, None];
            }
            if k == ROOK && rank_of(m.from) == back {
                for w in 0..2 {
                    if self.rights[us as usize][w] == Some(file_of(m.from) as u8) {
                        self.rights[us as usize][w] = None;
                    }
                }
            }
            if k == PAWN && (rank_of(m.to) - rank_of(m.from)).abs() == 2 {
                new_ep = Some(file_of(m.from) as u8);
            }
            self.apply_plain(m);
        }
        self.ep = new_ep;
        if k == PAWN || capture {
            self.half = 0;
        } else {
            self.half = (self.half + 1).min(100);
        }
        if us == BLACK {
            self.full = self.full.saturating_add(1);
        }
        self.stm = them;
    }

    pub fn null(&self) -> Option<Model> {
        if self.in_check(self.stm) {
            return None;
        }
        let mut n = self.clone();
        n.half = (n.half + 1).min(100);
        if n.stm == BLACK {
            n.full = n.full.saturating_add(1);
        }
        n.stm ^= 1;
        n.ep = None;
        Some(n)
    }

    /// 0 = Won (mover is mated), 1 = Drawn, 2 = Ongoing
    pub fn status(&self) -> u8 {
        let any = !self.legal_moves().is_empty();
        if !any {
            if self.in_check(self.stm) {
                0
            } else {
                1
            }
        } else if self.half >= 100 {
            1
        } else {
            2
        }
    }

    /// File of a *legal* en-passant capture, if any.
    pub fn legal_ep_file(&self) -> Option<u8> {
        let f = self.ep?;
        let passed_rank = if self.stm == WHITE { 5 } else { 2 };
        let t = (passed_rank * 8 + f) as u8;
        let legal = self.legal_moves();
        if legal.iter().any(|x| {
            x.to == t && self.sq[x.from as usize] == Some((PAWN, self.stm)) && file_of(x.from) != file_of(x.to)
        }) {
            Some(f)
        } else {
            None
        }
    }

    /// FIDE position identity (C13)
    pub fn same_position(&self, o: &Model) -> bool {
        self.sq == o.sq && self.stm == o.stm && self.rights == o.rights && self.legal_ep_file() == o.legal_ep_file()
    }

    /// Are all rights expressible in plain FEN (a/h files)?
    pub fn plain_expressible(&self) -> bool {
        (0..2).all(|c| self.rights[c][0].map_or(true, |f| f == 7) && self.rights[c][1].map_or(true, |f| f == 0))
    }

    /// Orthodox castling geometry for the UCI pair (C20): every right has king on e-file, rook on a/h.
    pub fn orthodox(&self) -> bool {
        (0..2u8).all(|c| {
            let r = self.rights[c as usize];
            if r[0].is_none() && r[1].is_none() {
                return true;
            }
            match self.king_sq(c) {
                Some(k) => file_of(k) == 4 && r[0].map_or(true, |f| f == 7) && r[1].map_or(true, |f| f == 0),
                None => false,
            }
        })
    }

    pub fn placement_text(&self) -> String {
        let mut s = String::new();
        for r in (0..8).rev() {
            let mut empty = 0;
            for f in 0..8 {
                match self.sq[r * 8 + f] {
                    None => empty += 1,
                    Some((k, c)) => {
                        if empty > 0 {
                            s.push_str(&empty.to_string());
                            empty = 0;
                        }
                        s.push(if c == WHITE { KIND_UPPER[k as usize] } else { KIND_LOWER[k as usize] });
                    }
                }
            }
            if empty > 0 {
                s.push_str(&empty.to_string());
            }
            if r > 0 {
                s.push('/');
            }
        }
        s
    }

    pub fn castling_text(&self, shredder: bool) -> String {
        let mut s = String::new();
        for c in 0..2 {
            for w in 0..2 {
                if let Some(f) = self.rights[c][w] {
                    let ch = if shredder {
                        (b'a' + f) as char
                    } else if w == 0 {
                        'k'
                    } else {
                        'q'
                    };
                    s.push(if c == 0 { ch.to_ascii_uppercase() } else { ch });
                }
            }
        }
        if s.is_empty() {
            s.push('-');
        }
        s
    }

    pub fn ep_text(&self) -> String {
        match self.ep {
            None => "-".to_string(),
            Some(f) => format!("{}{}", (b'a' + f) as char, if self.stm == WHITE { '6' } else { '3' }),
        }
    }

    /// Canonical six-field record.
    pub fn to_fen(&self, shredder: bool) -> String {
        format!(
            "{} {} {} {} {} {}",
            self.placement_text(),
            if self.stm == WHITE { 'w' } else { 'b' },
            self.castling_text(shredder),
            self.ep_text(),
            self.half,
            self.full
        )
    }

    /// All structural defects by C06's list, tagged with the field group they belong to.
    pub fn defects(&self) -> Vec<(Aspect, &'static str)> {
        let mut d = vec![];
        let mut kings_ok = true;
        for c in 0..2u8 {
            if self.count(KING, c) != 1 {
                d.push((Aspect::Placement, "king-count"));
                kings_ok = false;
            }
            if self.count_side(c) > 16 {
                d.push((Aspect::Placement, "piece-count"));
            }
            if self.count(PAWN, c) > 8 {
                d.push((Aspect::Placement, "pawn-count"));
            }
        }
        for s in (0..8).chain(56..64) {
            if matches!(self.sq[s], Some((PAWN, _))) {
                d.push((Aspect::Placement, "pawn-on-back-rank"));
                break;
            }
        }
        if kings_ok {
            let wk = self.king_sq(WHITE).unwrap();
            let bk = self.king_sq(BLACK).unwrap();
            if (file_of(wk) - file_of(bk)).abs() <= 1 && (rank_of(wk) - rank_of(bk)).abs() <= 1 {
                d.push((Aspect::Placement, "kings-adjacent"));
            }
            if self.in_check(self.stm ^ 1) {
                d.push((Aspect::Placement, "opponent-in-check"));
            }
        }
        for c in 0..2u8 {
            let back: i8 = if c == WHITE { 0 } else { 7 };
            let k = self.king_sq(c);
            for w in 0..2 {
                if let Some(f) = self.rights[c as usize][w] {
                    match k {
                        None => d.push((Aspect::Castling, "castle-no-king")),
                        Some(k) => {
                            if rank_of(k) != back {
                                d.push((Aspect::Castling, "castle-king-off-back-rank"));
                            }
                            if self.sq[mk(f as i8, back).unwrap() as usize] != Some((ROOK, c)) {
                                d.push((Aspect::Castling, "castle-no-rook"));
                            }
                            if w == 0 && !(file_of(k) < f as i8) {
                                d.push((Aspect::Castling, "castle-wrong-side"));
                            }
                            if w == 1 && !((f as i8) < file_of(k)) {
                                d.push((Aspect::Castling, "castle-wrong-side"));
                            }
                        }
                    }
                }
            }
        }
        if let Some(f) = self.ep {
            let them = self.stm ^ 1;
            // for white to move: black pawn on rank 5 (idx 4), passed square rank 6, origin rank 7
            let (pawn_r, passed_r, origin_r) = if self.stm == WHITE { (4, 5, 6) } else { (3, 2, 1) };
            if self.sq[mk(f as i8, pawn_r).unwrap() as usize] != Some((PAWN, them)) {
                d.push((Aspect::EnPassant, "ep-no-pawn"));
            }
            if self.sq[mk(f as i8, passed_r).unwrap() as usize].is_some() {
                d.push((Aspect::EnPassant, "ep-passed-occupied"));
            }
            if self.sq[mk(f as i8, origin_r).unwrap() as usize].is_some() {
                d.push((Aspect::EnPassant, "ep-origin-occupied"));
            }
        }
        if self.half > 100 {
            d.push((Aspect::Halfmove, "halfmove-range"));
        }
        if self.full == 0 {
            d.push((Aspect::Fullmove, "fullmove-range"));
        }
        d
    }

    /// Which of C06's structural conditions fails first (None = sound).
    pub fn unsound(&self) -> Option<&'static str> {
        self.defects().first().map(|x| x.1)
    }

    // ------------------------------------------------------------------ SAN / UCI (C20)

    pub fn san(&self, mv: MMove, legal: &[MMove]) -> String {
        let (k, _) = self.sq[mv.from as usize].unwrap();
        let mut s = String::new();
        if self.is_castle(mv) {
            s.push_str(if file_of(mv.to) > file_of(mv.from) { "O-O" } else { "O-O-O" });
        } else {
            let capture = self.is_capture(mv);
            if k == PAWN {
                if capture {
                    s.push((b'a' + (mv.from & 7)) as char);
                }
            } else {
                s.push(KIND_UPPER[k as usize]);
                let mut others: Vec<u8> = legal
                    .iter()
                    .filter(|o| {
                        o.to == mv.to
                            && o.from != mv.from
                            && !self.is_castle(**o)
                            && self.sq[o.from as usize].map(|x| x.0) == Some(k)
                    })
                    .map(|o| o.from)
                    .collect();
                others.dedup();
                if !others.is_empty() {
                    let share_file = others.iter().any(|&o| file_of(o) == file_of(mv.from));
                    let share_rank = others.iter().any(|&o| rank_of(o) == rank_of(mv.from));
                    if !share_file {
                        s.push((b'a' + (mv.from & 7)) as char);
                    } else if !share_rank {
                        s.push((b'1' + (mv.from >> 3)) as char);
                    } else {
                        s.push_str(&sq_name(mv.from));
                    }
                }
            }
            if capture {
                s.push('x');
            }
            s.push_str(&sq_name(mv.to));
            if mv.promo != 0 {
                s.push('=');
                s.push(KIND_UPPER[(mv.promo - 1) as usize]);
            }
        }
        let mut a = self.clone();
        a.make(mv);
        if a.in_check(a.stm) {
            s.push(if a.legal_moves().is_empty() { '#' } else { '+' });
        }
        s
    }

    pub fn uci(&self, mv: MMove) -> String {
        let mut to = mv.to;
        if self.is_castle(mv) {
            let back = mv.from & 0x38;
            to = back | if file_of(mv.to) > file_of(mv.from) { 6 } else { 2 };
        }
        let mut s = format!("{}{}", sq_name(mv.from), sq_name(to));
        if mv.promo != 0 {
            s.push(KIND_LOWER[(mv.promo - 1) as usize]);
        }
        s
    }
}

// ---------------------------------------------------------------------- text decoding

#[derive(Clone, Copy, PartialEq, Eq, Debug)]
pub enum Notation {
    /// castling field is "-": valid in both notations
    Neutral,
    Plain,
    Shredder,
}

/// Read a placement field. `lenient` additionally admits digit 0, 9 and adjacent digits
/// (their sum semantics is unambiguous); strict admits only canonical digit runs.
pub fn decode_placement(s: &str, lenient: bool) -> Option<[Option<(u8, u8)>; 64]> {
    let ranks: Vec<&str> = s.split('/').collect();
    if ranks.len() != 8 {
        return None;
    }
    let mut sq = [None; 64];
    for (i, row) in ranks.iter().enumerate() {
        let r = 7 - i;
        let mut f = 0usize;
        let mut last_digit = false;
        for ch in row.chars() {
            if let Some(d) = ch.to_digit(10) {
                if !ch.is_ascii() {
                    return None;
                }
                if !lenient && (d == 0 || d > 8 || last_digit) {
                    return None;
                }
                f += d as usize;
                last_digit = true;
            } else {
                last_digit = false;
                let lower = ch.to_ascii_lowercase();
                let k = KIND_LOWER.iter().position(|&c| c == lower)? as u8;
                if !ch.is_ascii() {
                    return None;
                }
                let c = if ch.is_ascii_uppercase() { WHITE } else { BLACK };
                if f >= 8 {
                    return None;
                }
                sq[r * 8 + f] = Some((k, c));
                f += 1;
            }
        }
        if f != 8 {
            return None;
        }
    }
    Some(sq)
}

fn decode_number(s: &str, lenient: bool) -> Option<u64> {
    if s.is_empty() {
        return None;
    }
    let body = if lenient { s.strip_prefix('+').unwrap_or(s) } else { s };
    if body.is_empty() || !body.bytes().all(|b| b.is_ascii_digit()) {
        return None;
    }
    if !lenient && body.len() > 1 && body.starts_with('0') {
        return None;
    }
    if body.len() > 18 {
        // far out of any range; saturate
        return Some(u64::MAX);
    }
    body.parse().ok()
}

/// Decode a six-field record into the position it denotes, or None when the text is outside
/// the (strict or lenient) grammar. No soundness judgement is made here.
/// Castling letters: KQkq denote the h/a files (plain); A-H/a-h denote rook files (Shredder),
/// the wing being decided by the side's king file. Mixed notations are not decoded.
pub fn decode(text: &str, lenient: bool) -> Option<(Model, Notation)> {
    let f: Vec<&str> = text.split(' ').collect();
    if f.len() != 6 || f.iter().any(|x| x.is_empty()) {
        return None;
    }
    let mut m = Model::empty();
    m.sq = decode_placement(f[0], lenient)?;
    m.stm = match f[1] {
        "w" => WHITE,
        "b" => BLACK,
        _ => return None,
    };
    let mut notation = Notation::Neutral;
    if f[2] != "-" {
        let all_plain = f[2].chars().all(|c| "KQkq".contains(c));
        let all_shredder = f[2].chars().all(|c| ('a'..='h').contains(&c.to_ascii_lowercase()) && c.is_ascii());
        if all_plain {
            notation = Notation::Plain;
        } else if all_shredder {
            notation = Notation::Shredder;
        } else {
            return None;
        }
        let mut seen: Vec<(usize, usize)> = vec![];
        let mut last_order = None;
        for ch in f[2].chars() {
            let c = if ch.is_ascii_uppercase() { 0usize } else { 1usize };
            let (w, file) = if notation == Notation::Plain {
                if ch.to_ascii_lowercase() == 'k' {
                    (0usize, 7u8)
                } else {
                    (1usize, 0u8)
                }
            } else {
                let file = ch.to_ascii_lowercase() as u8 - b'a';
                if m.count(KING, c as u8) != 1 {
                    return None;
                }
                let kf = file_of(m.king_sq(c as u8).unwrap()) as u8;
                if file > kf {
                    (0usize, file)
                } else if file < kf {
                    (1usize, file)
                } else {
                    return None;
                }
            };
            if seen.contains(&(c, w)) {
                return None;
            }
            seen.push((c, w));
            if !lenient {
                // canonical order: white short, white long, black short, black long
                let order = c * 2 + w;
                if let Some(lo) = last_order {
                    if order <= lo {
                        return None;
                    }
                }
                last_order = Some(order);
            }
            m.rights[c][w] = Some(file);
        }
    }
    if f[3] != "-" {
        let s = parse_sq(f[3])?;
        let want_rank = if m.stm == WHITE { 5 } else { 2 };
        if rank_of(s) != want_rank {
            return None;
        }
        m.ep = Some(file_of(s) as u8);
    }
    let h = decode_number(f[4], lenient)?;
    let n = decode_number(f[5], lenient)?;
    if h > 255 || n > 65535 {
        return None;
    }
    m.half = h as u8;
    m.full = n as u16;
    Some((m, notation))
}

/// Structural rule of C08: six non-empty space-separated fields, placement of exactly eight
/// ranks of exactly eight files (digits count as that many files, anything else as one).
pub fn structurally_ok(text: &str) -> bool {
    let f: Vec<&str> = text.split(' ').collect();
    if f.len() != 6 || f.iter().any(|x| x.is_empty()) {
        return false;
    }
    let ranks: Vec<&str> = f[0].split('/').collect();
    if ranks.len() != 8 {
        return false;
    }
    ranks.iter().all(|row| {
        let n: u32 = row.chars().map(|c| c.to_digit(10).unwrap_or(1)).sum();
        n == 8
    })
}

pub fn perft(m: &Model, d: u32) -> u64 {
    if d == 0 {
        return 1;
    }
    let ms = m.legal_moves();
    if d == 1 {
        return ms.len() as u64;
    }
    let mut n = 0;
    for mv in ms {
        let mut c = m.clone();
        c.make(mv);
        n += perft(&c, d - 1);
    }
    n
}
