//! cozy-sim: deterministic simulation with fault injection for cozy-chess.
//! Usage (normally through /verif/check):
//!   cozy-sim run --prop C03 --runs N --seed S --config K --threads T --known FILE --replay-dir DIR --out FILE
//!   cozy-sim replay FILE [--known FILE]
//!   cozy-sim digest --prop C03 --runs N --seed S --threads T
//!   cozy-sim selftest

mod catalogue;
mod exec;
mod faults;
mod gen;
mod model;
mod notation;
mod ops;
mod oracle;
mod real;
mod rng;
mod samepos;
mod shrink;
mod stats;
mod synth;

use exec::*;
use ops::*;
use stats::*;
use std::collections::BTreeMap;
use std::sync::atomic::{AtomicBool, AtomicU64, Ordering};
use std::sync::Mutex;
use std::time::Instant;

fn backend() -> &'static str {
    if cfg!(feature = "pext") {
        "pext"
    } else {
        "magic"
    }
}

fn profile() -> &'static str {
    if cfg!(debug_assertions) {
        "checked"
    } else {
        "release"
    }
}

pub fn json_str(s: &str) -> String {
    let mut o = String::with_capacity(s.len() + 2);
    o.push('"');
    for c in s.chars() {
        match c {
            '"' => o.push_str("\\\""),
            '\\' => o.push_str("\\\\"),
            '\n' => o.push_str("\\n"),
            '\t' => o.push_str("\\t"),
            '\r' => o.push_str("\\r"),
            c if (c as u32) < 0x20 => o.push_str(&format!("\\u{:04x}", c as u32)),
            c => o.push(c),
        }
    }
    o.push('"');
    o
}

fn load_known(path: Option<&str>) -> Vec<String> {
    let Some(p) = path else { return vec![] };
    let Ok(text) = std::fs::read_to_string(p) else { return vec![] };
    let mut out = vec![];
    for l in text.lines() {
        let l = l.trim();
        if l.starts_with("open:") {
            if let Some(c) = l.split_whitespace().find_map(|w| w.strip_prefix("class=")) {
                out.push(c.to_string());
            }
        }
    }
    out
}

struct Args {
    map: BTreeMap<String, String>,
    pos: Vec<String>,
}

impl Args {
    fn parse(v: &[String]) -> Args {
        let mut map = BTreeMap::new();
        let mut pos = vec![];
        let mut i = 0;
        while i < v.len() {
            if let Some(k) = v[i].strip_prefix("--") {
                let val = v.get(i + 1).cloned().unwrap_or_default();
                map.insert(k.to_string(), val);
                i += 2;
            } else {
                pos.push(v[i].clone());
                i += 1;
            }
        }
        Args { map, pos }
    }
    fn get(&self, k: &str) -> Option<&str> {
        self.map.get(k).map(|s| s.as_str())
    }
    fn num(&self, k: &str, d: u64) -> u64 {
        self.get(k).and_then(|s| s.parse().ok()).unwrap_or(d)
    }
}

struct Found {
    index: u64,
    trace: Trace,
    violation: Violation,
}

struct RunResult {
    stats: Stats,
    combined_digest: u64,
    distinct: usize,
    distinct_capped: bool,
    found: Vec<Found>,
    samples: Vec<String>,
    wall_s: f64,
    runs_done: u64,
    budget_hit: bool,
    first_digests: Vec<(u64, u64)>,
    lattice_found: bool,
}

/// One simulated run: boot, then operations from the generator until it stops.
fn one_run(prop: Prop, base_seed: u64, index: u64, long: bool, lattice: bool, known: &[String], roots: &[model::Model], stats: &mut Stats) -> (Trace, Option<Violation>) {
    let seed = gen::run_seed(base_seed, prop, 0, index);
    let mut g = gen::Gen::new(prop, if lattice { rng::mix(&[seed, 0x1A77]) } else { seed }, long);
    let boot = if lattice {
        // the lattice pass: boot entry = run index, at most two operations afterwards
        g.swarm.len = g.rng.below(3) as usize;
        match synth::lattice(index, &mut g.rng) {
            Some(m) => Boot::Text(m.to_fen(true), Route::Sfen),
            None => {
                stats.hit("lattice_entry_without_sound_arrangement");
                return (Trace { boot: Boot::Start(518, 518), ops: vec![] }, None);
            }
        }
    } else {
        if let Some(line) = gen::line_for(index) {
            g.prefix = line;
            g.swarm.len = g.swarm.len.max(2);
            stats.hit("boot_opening_line");
        }
        gen::boot_for(base_seed, index, &mut g.rng, roots)
    };
    let mut trace = Trace { boot: boot.clone(), ops: vec![] };
    stats.runs += 1;
    stats.eat_str(&boot.text());
    if lattice || index % 8 == 7 {
        stats.hit("boot_slider_lattice");
    }
    match &boot {
        Boot::Start(..) => stats.hit("boot_start_constructor"),
        Boot::Text(_, r) => stats.hit(&format!("boot_text_{}", r.name())),
    }
    let readopted_before = stats.counters.get("readopted_after_foreign_divergence").copied().unwrap_or(0);
    let mut cx = Ctx { prop, known, stats, step: 0 };
    let mut w = match exec::boot(&boot, &mut cx) {
        Ok(w) => w,
        Err(Stop::Violation(v)) => return (trace, Some(v)),
        Err(Stop::BootRejected) => {
            if std::env::var("VERIF_DEBUG_BOOT").is_ok() {
                eprintln!("boot rejected: {}", boot.text());
            }
            cx.stats.boot_rejected += 1;
            return (trace, None);
        }
        Err(Stop::Foreign(_)) => {
            cx.stats.foreign_aborts += 1;
            return (trace, None);
        }
        Err(Stop::Invalid(e)) => panic!("generator produced an invalid boot: {}", e),
    };
    let r = (|| -> R {
        oracle::observe(&mut w, &mut cx)?;
        while let Some(op) = g.next(&w) {
            trace.ops.push(op.clone());
            cx.step = trace.ops.len();
            exec::step(&mut w, &op, &mut cx)?;
        }
        Ok(())
    })();
    match r {
        Ok(()) => (trace, None),
        Err(Stop::Violation(v)) => (trace, Some(v)),
        Err(Stop::Foreign(_)) => {
            cx.stats.foreign_aborts += 1;
            (trace, None)
        }
        Err(Stop::BootRejected) => (trace, None),
        Err(Stop::Invalid(e)) => {
            // can only happen after a re-adopted (diverged) state, e.g. a clock outside the setter's domain:
            // the run ends like a foreign abort, it is not a violation of this property. Without a preceding
            // divergence it is a harness bug and stays loud.
            if cx.stats.counters.get("readopted_after_foreign_divergence").copied().unwrap_or(0) == readopted_before {
                panic!("generator produced an invalid op: {} in {:?}", e, trace.ops.last());
            }
            cx.stats.foreign_aborts += 1;
            cx.stats.hit("generated_op_not_applicable_after_divergence");
            (trace, None)
        }
    }
}

fn run_batch(prop: Prop, base_seed: u64, first: u64, runs: u64, threads: usize, known: &[String], budget_s: f64, want_samples: bool, long: bool, lattice: bool) -> RunResult {
    let roots = gen::roots();
    let next = AtomicU64::new(first);
    let end = first + runs;
    let min_bad = AtomicU64::new(u64::MAX);
    let found: Mutex<Vec<Found>> = Mutex::new(vec![]);
    let distinct = Distinct::new(160_000_000);
    let combined = AtomicU64::new(0);
    let total = Mutex::new(Stats::new());
    let samples: Mutex<Vec<(u64, String)>> = Mutex::new(vec![]);
    let first_digests: Mutex<Vec<(u64, u64)>> = Mutex::new(vec![]);
    let budget_hit = AtomicBool::new(false);
    let t0 = Instant::now();
    std::thread::scope(|s| {
        for _ in 0..threads {
            s.spawn(|| {
                let mut local = Stats::new();
                loop {
                    let i = next.fetch_add(1, Ordering::Relaxed);
                    if i >= end {
                        break;
                    }
                    if i > min_bad.load(Ordering::Relaxed) {
                        continue;
                    }
                    if i % 64 == 0 && t0.elapsed().as_secs_f64() > budget_s {
                        budget_hit.store(true, Ordering::Relaxed);
                        next.store(end, Ordering::Relaxed);
                        break;
                    }
                    local.digest = 0xcbf2_9ce4_8422_2325;
                    let (trace, v) = one_run(prop, base_seed, i, long, lattice, known, &roots, &mut local);
                    let d = local.digest;
                    combined.fetch_xor(rng::mix(&[i, d]), Ordering::Relaxed);
                    if i < first + 256 {
                        first_digests.lock().unwrap().push((i, d));
                    }
                    if want_samples && i < first + 3 {
                        let mut text = format!("boot {}", trace.boot.text());
                        for op in trace.ops.iter().take(40) {
                            text.push_str(" ; ");
                            text.push_str(&op.text());
                        }
                        if trace.ops.len() > 40 {
                            text.push_str(&format!(" ; … ({} ops)", trace.ops.len()));
                        }
                        samples.lock().unwrap().push((i, text));
                    }
                    if let Some(v) = v {
                        min_bad.fetch_min(i, Ordering::Relaxed);
                        found.lock().unwrap().push(Found { index: i, trace, violation: v });
                    }
                    if local.pending_keys.len() > 50_000 {
                        distinct.insert_all(&mut local.pending_keys);
                    }
                }
                distinct.insert_all(&mut local.pending_keys);
                total.lock().unwrap().merge(&local);
            });
        }
    });
    let mut found = found.into_inner().unwrap();
    found.sort_by_key(|f| f.index);
    let mut samples = samples.into_inner().unwrap();
    samples.sort();
    let mut fd = first_digests.into_inner().unwrap();
    fd.sort();
    let stats = total.into_inner().unwrap();
    RunResult {
        runs_done: stats.runs,
        stats,
        combined_digest: combined.load(Ordering::Relaxed),
        distinct: distinct.len(),
        distinct_capped: distinct.capped.load(Ordering::Relaxed),
        found,
        samples: samples.into_iter().map(|x| x.1).collect(),
        wall_s: t0.elapsed().as_secs_f64(),
        budget_hit: budget_hit.load(Ordering::Relaxed),
        first_digests: fd,
        lattice_found: false,
    }
}

fn cmd_run(a: &Args) -> i32 {
    let prop = Prop::parse(a.get("prop").unwrap_or("")).expect("--prop Cxx (a claimed property)");
    let runs = a.num("runs", 1000);
    let seed = a.num("seed", 1);
    let threads = a.num("threads", 16) as usize;
    let budget_s = a.num("budget-s", 3600) as f64;
    let known = load_known(a.get("known"));
    let replay_dir = a.get("replay-dir").unwrap_or("/verif/replays").to_string();
    let recheck = a.num("recheck", 0);
    let first = a.num("first", 0);
    let long = a.get("tier") == Some("thorough");
    let mut res = run_batch(prop, seed, first, runs, threads, &known, budget_s, true, long, false);
    // the slider-lattice pass: every (slider square, relevant blocker subset) pair as a boot state
    let lattice_runs = a.num("lattice", 0);
    let mut lattice_res = None;
    if lattice_runs > 0 && res.found.is_empty() {
        let lr = run_batch(prop, seed, 0, lattice_runs, threads, &known, budget_s, false, false, true);
        res.stats.merge(&lr.stats);
        res.wall_s += lr.wall_s;
        res.combined_digest ^= lr.combined_digest.rotate_left(1);
        res.runs_done += lr.runs_done;
        lattice_res = Some((lr.runs_done, lr.found.len()));
        if !lr.found.is_empty() {
            res.found = lr.found;
            res.lattice_found = true;
        }
    }

    // determinism re-check: the first runs again, single-threaded
    let mut recheck_ok = true;
    let mut rechecked = 0u64;
    if recheck > 0 && res.found.is_empty() {
        let n = recheck.min(runs).min(256);
        let again = run_batch(prop, seed, first, n, 1, &known, budget_s, false, long, false);
        rechecked = n;
        let a1: Vec<(u64, u64)> = res.first_digests.iter().copied().filter(|x| x.0 < first + n).collect();
        recheck_ok = a1 == again.first_digests;
    }

    let mut exit = 0;
    let mut reported: Vec<(String, String)> = vec![];
    if let Some(f) = res.found.first() {
        let (min_t, min_v, tests) = shrink::shrink(prop, &known, &f.trace, &f.violation);
        let _ = std::fs::create_dir_all(&replay_dir);
        let path = format!(
            "{}/{}-{}-{}-{}{}{}.replay",
            replay_dir,
            prop.name(),
            backend(),
            seed,
            if profile() == "checked" { "checked-" } else { "" },
            if res.lattice_found { "lattice" } else { "" },
            f.index
        );
        let rf = ReplayFile {
            property: prop.name().to_string(),
            class: min_v.class.clone(),
            backend: backend().to_string(),
            profile: profile().to_string(),
            seed,
            run: f.index,
            detail: format!("{}\nfound at step {} of run {} ({} ops); minimised to {} ops with {} replays", min_v.detail, f.violation.step, f.index, f.trace.ops.len(), min_t.ops.len(), tests),
            trace: min_t,
        };
        std::fs::write(&path, rf.render()).expect("cannot write replay file");
        println!("VIOLATION property={} replay={}", prop.name(), path);
        println!("  class: {}", min_v.class);
        println!("  detail: {}", min_v.detail);
        reported.push((min_v.class.clone(), path));
        exit = 1;
    }
    for (class, n) in &res.stats.known_matched {
        println!("KNOWN-FINDING: property={} class={} (matched {} times in this run)", prop.name(), class, n);
    }
    if !recheck_ok {
        println!("HARNESS-ERROR: determinism re-check failed for {}", prop.name());
        exit = 2.max(exit);
    }

    // partial evidence (merged across configurations by the driver)
    let mut j = String::new();
    j.push_str("{\n");
    j.push_str(&format!("\"property\": {},\n", json_str(prop.name())));
    j.push_str(&format!("\"backend\": {},\n\"profile\": {},\n", json_str(backend()), json_str(profile())));
    j.push_str(&format!("\"seed\": {},\n\"first_index\": {},\n\"runs_requested\": {},\n\"runs\": {},\n", seed, first, runs, res.runs_done));
    j.push_str(&format!("\"steps\": {},\n\"plies\": {},\n\"oracle_evaluations\": {},\n", res.stats.steps, res.stats.plies, res.stats.oracle_evals));
    j.push_str(&format!("\"distinct_states\": {},\n\"distinct_capped\": {},\n", res.distinct, res.distinct_capped));
    j.push_str(&format!("\"lattice_runs\": {},\n", lattice_res.map_or(0, |x| x.0)));
    j.push_str(&format!("\"foreign_aborts\": {},\n\"boot_rejected\": {},\n", res.stats.foreign_aborts, res.stats.boot_rejected));
    j.push_str(&format!("\"wall_s\": {:.3},\n\"budget_hit\": {},\n", res.wall_s, res.budget_hit));
    j.push_str(&format!("\"digest\": {},\n", json_str(&format!("{:016x}", res.combined_digest))));
    j.push_str(&format!("\"determinism_recheck\": {{\"runs\": {}, \"ok\": {}}},\n", rechecked, recheck_ok));
    j.push_str(&format!("\"violations\": {},\n", res.found.len().min(1)));
    j.push_str(&format!("\"violating_runs_seen\": {},\n", res.found.len()));
    j.push_str("\"reported\": [");
    j.push_str(&reported.iter().map(|(c, p)| format!("{{\"class\": {}, \"replay\": {}}}", json_str(c), json_str(p))).collect::<Vec<_>>().join(", "));
    j.push_str("],\n\"known_findings_matched\": {");
    j.push_str(&res.stats.known_matched.iter().map(|(k, v)| format!("{}: {}", json_str(k), v)).collect::<Vec<_>>().join(", "));
    j.push_str("},\n\"counters\": {");
    j.push_str(&res.stats.counters.iter().map(|(k, v)| format!("{}: {}", json_str(k), v)).collect::<Vec<_>>().join(", "));
    j.push_str("},\n\"samples\": [");
    j.push_str(&res.samples.iter().map(|s| json_str(s)).collect::<Vec<_>>().join(", "));
    j.push_str("]\n}\n");
    if let Some(out) = a.get("out") {
        std::fs::write(out, &j).expect("cannot write partial evidence");
    }
    println!(
        "{} {} {}/{}: runs={} steps={} distinct={} foreign={} boot_rejected={} wall={:.1}s digest={:016x} violations={}",
        prop.name(), a.get("tier").unwrap_or("-"), backend(), profile(), res.runs_done, res.stats.steps, res.distinct, res.stats.foreign_aborts, res.stats.boot_rejected, res.wall_s, res.combined_digest, res.found.len()
    );
    exit
}

fn cmd_replay(a: &Args) -> i32 {
    let Some(path) = a.pos.get(1) else {
        eprintln!("usage: cozy-sim replay FILE");
        return 2;
    };
    let text = match std::fs::read_to_string(path) {
        Ok(t) => t,
        Err(e) => {
            eprintln!("cannot read {}: {}", path, e);
            return 2;
        }
    };
    let rf = match ReplayFile::parse(&text) {
        Ok(r) => r,
        Err(e) => {
            eprintln!("bad replay file: {}", e);
            return 2;
        }
    };
    let Some(prop) = Prop::parse(&rf.property) else {
        eprintln!("unknown property {}", rf.property);
        return 2;
    };
    if rf.backend != backend() || rf.profile != profile() {
        eprintln!("note: recorded with {}/{}, replaying with {}/{}", rf.backend, rf.profile, backend(), profile());
    }
    let known = load_known(a.get("known"));
    let mut stats = Stats::new();
    let mut cx = Ctx { prop, known: &known, stats: &mut stats, step: 0 };
    match run_trace(&rf.trace, &mut cx) {
        Err(Stop::Violation(v)) => {
            println!("VIOLATION property={} replay={}", prop.name(), path);
            println!("  class: {}{}", v.class, if v.class == rf.class { " (same as recorded)" } else { " (recorded class differs)" });
            println!("  step: {}", v.step);
            println!("  detail: {}", v.detail);
            1
        }
        Ok(n) => {
            println!("replay of {}: {} ops executed, property {} held", path, n, prop.name());
            for (class, n) in &stats.known_matched {
                println!("KNOWN-FINDING: property={} class={} (matched {} times)", prop.name(), class, n);
            }
            0
        }
        Err(Stop::Invalid(e)) => {
            println!("replay of {}: trace not applicable to this tree: {}", path, e);
            0
        }
        Err(Stop::Foreign(e)) => {
            println!("replay of {}: ended by a divergence outside {}: {}", path, prop.name(), e);
            0
        }
        Err(Stop::BootRejected) => {
            println!("replay of {}: boot state refused by the library", path);
            0
        }
    }
}

fn cmd_digest(a: &Args) -> i32 {
    let prop = Prop::parse(a.get("prop").unwrap_or("")).expect("--prop");
    let res = run_batch(prop, a.num("seed", 1), 0, a.num("runs", 1024), a.num("threads", 16) as usize, &load_known(a.get("known")), 3600.0, false, a.get("tier") == Some("thorough"), a.get("lattice-mode").is_some());
    println!("digest {} {:016x} runs={} steps={} violations={}", prop.name(), res.combined_digest, res.runs_done, res.stats.steps, res.found.len());
    0
}

fn cmd_selftest() -> i32 {
    use model::*;
    let mut bad = 0;
    // published perft values (chessprogramming wiki; Chess960 perft suite), typed in, never computed with the library
    let roots: &[(&str, &[u64])] = &[
        ("rnbqkbnr/pppppppp/8/8/8/8/PPPPPPPP/RNBQKBNR w KQkq - 0 1", &[20, 400, 8902, 197281]),
        ("r3k2r/p1ppqpb1/bn2pnp1/3PN3/1p2P3/2N2Q1p/PPPBBPPP/R3K2R w KQkq - 0 1", &[48, 2039, 97862]),
        ("8/2p5/3p4/KP5r/1R3p1k/8/4P1P1/8 w - - 0 1", &[14, 191, 2812, 43238]),
        ("r3k2r/Pppp1ppp/1b3nbN/nP6/BBP1P3/q4N2/Pp1P2PP/R2Q1RK1 w kq - 0 1", &[6, 264, 9467]),
        ("rnbq1k1r/pp1Pbppp/2p5/8/2B5/8/PPP1NnPP/RNBQK2R w KQ - 1 8", &[44, 1486, 62379]),
        ("r4rk1/1pp1qppp/p1np1n2/2b1p1B1/2B1P1b1/P1NP1N2/1PP1QPPP/R4RK1 w - - 0 10", &[46, 2079, 89890]),
        ("bqnb1rkr/pp3ppp/3ppn2/2p5/5P2/P2P4/NPP1P1PP/BQ1BNRKR w HFhf - 2 9", &[21, 528, 12189, 326672]),
        ("2nnrbkr/p1qppppp/8/1ppb4/6PP/3PP3/PPP2P2/BQNNRBKR w HEhe - 1 9", &[21, 807, 18002, 667366]),
        ("b1q1rrkb/pppppppp/3nn3/8/P7/1PPP4/4PPPP/BQNNRKRB w GE - 1 9", &[20, 479, 10471, 273318]),
        ("qbbnnrkr/2pp2pp/p7/1p2pp2/8/P3PP2/1PPP1KPP/QBBNNR1R w hf - 0 9", &[22, 593, 13440, 382958]),
    ];
    for (fen, exp) in roots {
        let Some((m, _)) = decode(fen, false) else {
            println!("selftest: model cannot decode {}", fen);
            bad += 1;
            continue;
        };
        for (d, &e) in exp.iter().enumerate() {
            let n = perft(&m, d as u32 + 1);
            if n != e {
                println!("selftest: MODEL PERFT MISMATCH {} depth {}: {} expected {}", fen, d + 1, n, e);
                bad += 1;
            }
        }
    }
    println!("selftest: model perft against published counts: {}", if bad == 0 { "ok" } else { "FAILED" });
    // curated roots: canonical, model-sound, text round trip in the model
    for m in gen::roots() {
        let t = m.to_fen(true);
        if let Some(d) = m.unsound() {
            println!("selftest: curated root unsound ({}): {}", d, t);
            bad += 1;
        }
        match decode(&t, false) {
            Some((m2, _)) if m2 == m => {}
            _ => {
                println!("selftest: model text round trip failed: {}", t);
                bad += 1;
            }
        }
    }
    println!("selftest: {} curated roots checked", gen::roots().len());
    for line in gen::lines() {
        let mut m = decode("rnbqkbnr/pppppppp/8/8/8/8/PPPPPPPP/RNBQKBNR w KQkq - 0 1", false).unwrap().0;
        for mv in &line {
            if !m.legal_moves().contains(mv) {
                println!("selftest: curated line has an illegal move {}", mv.text());
                bad += 1;
                break;
            }
            m.make(*mv);
        }
    }
    println!("selftest: {} curated opening lines checked", gen::lines().len());
    if synth::slider_lattice_entries() != 102_400 + 5_248 || synth::ray_lattice_entries() != (896 + 560) * 6 {
        println!("selftest: lattice has {} + {} entries, expected 107648 + 8736", synth::slider_lattice_entries(), synth::ray_lattice_entries());
        bad += 1;
    }
    // replay-file format round trip
    {
        let t = Trace {
            boot: Boot::Text("4k3/8/8/8/8/8/8/4K3 w - - 0 1".into(), Route::Sfen),
            ops: vec![
                Op::Play(MMove::parse("e1e2").unwrap(), Via::TryPlay), Op::Null, Op::Request(MMove::parse("e7e8k").unwrap(), Via::Play),
                Op::Restart(Route::Builder), Op::Clock(Some(99), None), Op::RestartEdited(100, 65535), Op::Mask(0xff00, Some(3)), Op::Sweep,
                Op::TextCatalogue(None), Op::TextCatalogue(Some(1004)), Op::BuilderCatalogue(Some(3)), Op::ByteFaults(77), Op::Fork(vec![MMove::parse("e2e1").unwrap()], vec![]),
                Op::SamePos, Op::SanFuzz(5), Op::OfferSynth(9),
            ],
        };
        let rf = ReplayFile { property: "C03".into(), class: "x".into(), backend: "magic".into(), profile: "release".into(), seed: 1, run: 2, detail: "a\nb".into(), trace: t.clone() };
        match ReplayFile::parse(&rf.render()) {
            Ok(p) if p.trace.ops == t.ops && p.trace.boot == t.boot => println!("selftest: replay format round trip ok"),
            _ => {
                println!("selftest: replay format round trip FAILED");
                bad += 1;
            }
        }
    }
    if bad == 0 {
        0
    } else {
        2
    }
}

fn main() {
    real::install_panic_hook();
    let argv: Vec<String> = std::env::args().collect();
    let a = Args::parse(&argv[1..]);
    let code = match a.pos.first().map(|s| s.as_str()) {
        Some("run") => cmd_run(&a),
        Some("replay") => cmd_replay(&a),
        Some("digest") => cmd_digest(&a),
        Some("selftest") => cmd_selftest(),
        Some("list-ops") => {
            // operator index tables of the two catalogues (indices are stable across states)
            let m = model::decode("rnbqkbnr/pppppppp/8/8/8/8/PPPPPPPP/RNBQKBNR w KQkq - 0 1", false).unwrap().0;
            for (base, sh) in [(0usize, false), (1000usize, true)] {
                for (i, c) in catalogue::text_cases(&m, sh).iter().enumerate() {
                    if let Some(c) = c {
                        if c.name != "W.truncate-at-byte" {
                            println!("text {} {}", base + i, c.name);
                        }
                    } else {
                        println!("text {} (not applicable to the start position)", base + i);
                    }
                }
            }
            for (i, c) in catalogue::builder_cases(&m).iter().enumerate() {
                println!("builder {} {}", i, c.as_ref().map_or("(not applicable to the start position)", |c| c.name));
            }
            0
        }
        _ => {
            eprintln!("usage: cozy-sim run|replay|digest|selftest ...");
            2
        }
    };
    std::process::exit(code);
}
