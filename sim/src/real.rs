//! The seam to the real library: value conversion at the API boundary and guarded calls.
//! Everything in here calls the real cozy-chess compiled from /repo's working tree.

use crate::model::*;
use cozy_chess::*;
use std::cell::Cell;
use std::panic::{catch_unwind, AssertUnwindSafe};

thread_local! {
    static QUIET: Cell<u32> = const { Cell::new(0) };
}

/// Install a panic hook that is silent only inside `guard` scopes (where a panic of the real
/// code is an observation, not a harness bug). Harness bugs stay loud.
pub fn install_panic_hook() {
    let default = std::panic::take_hook();
    std::panic::set_hook(Box::new(move |info| {
        let quiet = QUIET.with(|q| q.get()) > 0;
        if !quiet {
            default(info);
        }
    }));
}

/// Run a call into the real library; Err(()) if it panicked.
pub fn guard<T>(f: impl FnOnce() -> T) -> Result<T, ()> {
    QUIET.with(|q| q.set(q.get() + 1));
    let r = catch_unwind(AssertUnwindSafe(f));
    QUIET.with(|q| q.set(q.get() - 1));
    r.map_err(|_| ())
}

pub fn adopt(b: &Board) -> Model {
    let mut m = Model::empty();
    for s in 0..64usize {
        let sq = Square::index(s);
        if let Some(p) = b.piece_on(sq) {
            if let Some(c) = b.color_on(sq) {
                m.sq[s] = Some((p as u8, c as u8));
            }
        }
    }
    m.stm = b.side_to_move() as u8;
    for c in 0..2 {
        let r = b.castle_rights(Color::index(c));
        m.rights[c] = [r.short.map(|f| f as u8), r.long.map(|f| f as u8)];
    }
    m.ep = b.en_passant().map(|f| f as u8);
    m.half = b.halfmove_clock();
    m.full = b.fullmove_number();
    m
}

/// Does the real board's raw bitboard state agree with what the accessors report?
/// (piece_on / color_on read the same bitboards; this catches overlapping bitboards.)
pub fn bitboards_consistent(b: &Board) -> bool {
    let mut occ = 0u64;
    for p in Piece::ALL {
        let bb = b.pieces(p).0;
        if occ & bb != 0 {
            return false;
        }
        occ |= bb;
    }
    let w = b.colors(Color::White).0;
    let k = b.colors(Color::Black).0;
    w & k == 0 && (w | k) == occ && b.occupied().0 == occ
}

pub fn to_real(m: MMove) -> Move {
    Move {
        from: Square::index(m.from as usize),
        to: Square::index(m.to as usize),
        promotion: if m.promo == 0 { None } else { Some(Piece::index((m.promo - 1) as usize)) },
    }
}

pub fn to_model(m: Move) -> MMove {
    MMove { from: m.from as u8, to: m.to as u8, promo: m.promotion.map_or(0, |p| p as u8 + 1) }
}

/// Build a `BoardBuilder` from a model state without going through any library parser.
pub fn builder_of(m: &Model) -> BoardBuilder {
    let mut bb = BoardBuilder::empty();
    for s in 0..64usize {
        if let Some((k, c)) = m.sq[s] {
            *bb.square_mut(Square::index(s)) = Some((Piece::index(k as usize), Color::index(c as usize)));
        }
    }
    bb.side_to_move = Color::index(m.stm as usize);
    for c in 0..2 {
        *bb.castle_rights_mut(Color::index(c)) = CastleRights {
            short: m.rights[c][0].map(|f| File::index(f as usize)),
            long: m.rights[c][1].map(|f| File::index(f as usize)),
        };
    }
    bb.en_passant = m.ep.map(|f| {
        Square::new(File::index(f as usize), if m.stm == WHITE { Rank::Sixth } else { Rank::Third })
    });
    bb.halfmove_clock = m.half;
    bb.fullmove_number = m.full;
    bb
}

/// All moves of the real generator, in delivery order, with batch statistics.
pub struct Generated {
    pub moves: Vec<MMove>,
    pub batches: usize,
    pub empty_batch: bool,
    pub returned: bool,
    pub len_mismatch: bool,
}

pub fn generate(b: &Board, mask: BitBoard) -> Generated {
    let mut g = Generated { moves: Vec::with_capacity(64), batches: 0, empty_batch: false, returned: false, len_mismatch: false };
    let mut listener = |pm: PieceMoves| {
        g.batches += 1;
        if pm.is_empty() {
            g.empty_batch = true;
        }
        let before = g.moves.len();
        for x in pm {
            g.moves.push(to_model(x));
        }
        if g.moves.len() - before != pm.len() {
            g.len_mismatch = true;
        }
        false
    };
    // the unmasked entry point is a function of its own: use it whenever the mask is full
    let ret = if mask == BitBoard::FULL { b.generate_moves(&mut listener) } else { b.generate_moves_for(mask, &mut listener) };
    g.returned = ret;
    g
}

pub fn status_code(s: GameStatus) -> u8 {
    match s {
        GameStatus::Won => 0,
        GameStatus::Drawn => 1,
        GameStatus::Ongoing => 2,
        #[allow(unreachable_patterns)]
        _ => 3,
    }
}

pub fn fen_err_name(e: &FenParseError) -> &'static str {
    match e {
        FenParseError::InvalidBoard => "InvalidBoard",
        FenParseError::InvalidSideToMove => "InvalidSideToMove",
        FenParseError::InvalidCastlingRights => "InvalidCastlingRights",
        FenParseError::InvalidEnPassant => "InvalidEnPassant",
        FenParseError::InvalidHalfMoveClock => "InvalidHalfMoveClock",
        FenParseError::InvalidFullmoveNumber => "InvalidFullmoveNumber",
        FenParseError::MissingField => "MissingField",
        FenParseError::TooManyFields => "TooManyFields",
        // a patch may add a variant: the simulator must still build
        #[allow(unreachable_patterns)]
        _ => "OtherFenParseError",
    }
}

pub fn builder_err_name(e: &BoardBuilderError) -> &'static str {
    match e {
        BoardBuilderError::InvalidBoard => "InvalidBoard",
        BoardBuilderError::InvalidCastlingRights => "InvalidCastlingRights",
        BoardBuilderError::InvalidEnPassant => "InvalidEnPassant",
        BoardBuilderError::InvalidHalfMoveClock => "InvalidHalfMoveClock",
        BoardBuilderError::InvalidFullmoveNumber => "InvalidFullmoveNumber",
        #[allow(unreachable_patterns)]
        _ => "OtherBoardBuilderError",
    }
}

/// The three text entry points.
#[derive(Clone, Copy, PartialEq, Eq, Debug)]
pub enum Entry {
    Fen,
    Sfen,
    FromStr,
}

impl Entry {
    pub fn name(self) -> &'static str {
        match self {
            Entry::Fen => "fen",
            Entry::Sfen => "sfen",
            Entry::FromStr => "fromstr",
        }
    }
}

pub fn parse_via(text: &str, e: Entry) -> Result<Result<Board, FenParseError>, ()> {
    guard(|| match e {
        Entry::Fen => Board::from_fen(text, false),
        Entry::Sfen => Board::from_fen(text, true),
        Entry::FromStr => text.parse::<Board>(),
    })
}
